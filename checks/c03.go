package checks

import (
	"context"
	"errors"
	"fmt"
	ros "github.com/risor-io/risor/os"
	goos "os"
	"path/filepath"
	"runtime"
	"sort"
	"strings"
	"sync"
	"sync/atomic"
	"time"

	"github.com/risor-io/risor"
	"github.com/risor-io/risor/compiler"
	"github.com/risor-io/risor/errz"
	"github.com/risor-io/risor/importer"
	"github.com/risor-io/risor/object"
	"github.com/risor-io/risor/parser"
	"github.com/risor-io/risor/verif/fw"
	"github.com/risor-io/risor/verif/sim"
	"github.com/risor-io/risor/verif/simos"
	"github.com/risor-io/risor/vm"
)

// C03, fault-path slice: whatever a script does (block, spawn, get cancelled,
// hit failing I/O, call host code that panics) and whatever faults land while
// it does it, every API call the host makes returns, and the process lives.

type c03HostPanic struct{ msg string }

func (p c03HostPanic) String() string { return "custom panic value: " + p.msg }

func c03HostBuiltins(s *sim.Sim, h *Host, f *sim.Stream, rc *fw.RunCtx) map[string]any {
	misbehave := func(name string) *object.Builtin {
		return object.NewBuiltin(name, func(ctx context.Context, args ...object.Object) object.Object {
			rc.Hit("fault_host_" + name)
			switch name {
			case "hfail":
				return object.Errorf("host failure")
			case "hfail_soft":
				return object.NewError(errors.New("soft host failure")).WithRaised(false)
			case "hpanic_str":
				panic("host panic string")
			case "hpanic_err":
				panic(errors.New("host panic error"))
			case "hpanic_rt":
				var m map[string]int
				m["x"] = 1
			case "hpanic_custom":
				panic(c03HostPanic{"boom"})
			case "hpanic_nilderef":
				var p *c03HostPanic
				_ = p.msg
			case "hstall":
				for i := 0; i < 5; i++ {
					s.Yield("host.stall")
				}
			case "hnil":
				return nil // a host builtin returning a nil object
			}
			return object.Nil
		})
	}
	out := map[string]any{"tick": h.Tick()}
	// hdepth measures how deep the calling goroutine's Go stack is: the VM
	// limits its own frames, so no script may drive the host's stack without
	// bound (a Go stack overflow cannot be recovered and ends the process)
	out["hdepth"] = object.NewBuiltin("hdepth", func(ctx context.Context, args ...object.Object) object.Object {
		buf := c03DepthBuf.Get().(*[]uintptr)
		n := runtime.Callers(0, *buf)
		c03DepthBuf.Put(buf)
		if int64(n) > c03MaxDepth.Load() {
			c03MaxDepth.Store(int64(n))
		}
		return object.NewInt(int64(n))
	})
	for _, n := range []string{"hfail", "hfail_soft", "hpanic_str", "hpanic_err", "hpanic_rt", "hpanic_custom", "hpanic_nilderef", "hstall"} {
		out[n] = misbehave(n)
	}
	for _, n := range []string{"mark", "emits", "pstart", "sinv", "sent", "rinv", "rend", "cinv", "closed", "waited", "nilsent", "gotnil", "ptag"} {
		out[n] = h.Recorder(n)
	}
	out["emit"] = h.RecorderRet("emit", 1)
	return out
}

// c03HostStackBound is how many Go frames a script may put on the host's
// goroutine stack: twelve for each of the 1024 frames the VM allows itself
// (an ordinary call costs three, a call through a callback-carrying builtin
// about seven).
const c03HostStackBound = 12 * 1024

var (
	c03DepthBuf = sync.Pool{New: func() any { b := make([]uintptr, c03HostStackBound+64); return &b }}
	c03MaxDepth atomic.Int64
)

var c03Misbehaviours = []string{"hfail()", "hfail_soft()", "hpanic_str()", "hpanic_err()", "hpanic_rt()", "hpanic_custom()", "hpanic_nilderef()", "hstall()",
	"try(hpanic_str)", "try(func() { hpanic_rt() }, func(e) { return hpanic_err() })", "[1, 2].map(func(x) { return hpanic_str() })", "sorted([2, 1], func(a, b) { hfail(); return a < b })",
	"spawn(hpanic_str).wait()", "spawn(func() { hpanic_custom() }).wait()", "go hpanic_err()", "func dd() { defer hpanic_str(); return 1 }; dd()", "func de() { defer func() { hfail() }(); hpanic_rt() }; de()",
	// calls that never return to their caller by themselves: recursion, and
	// deferred calls that defer again
	"func rr(n) { hdepth(); return rr(n + 1) + 1 }; try(func() { rr(0) }, func(e) { return 0 })",
	"func dr(n) { hdepth(); defer dr(n + 1); return n }; try(func() { dr(0) }, func(e) { return 0 })",
	"func drs() { hdepth(); defer drs() }; spawn(drs).wait()",
	"func drm(n) { hdepth(); defer func() { [n].each(func(x) { drm(x + 1) }) }() }; drm(0)",
	"func drb(n) { hdepth(); if n < 30 { defer drb(n + 1) }; return n }; drb(0)",
}

func c03Sprinkle(g *sim.Stream, src string) string {
	lines := strings.Split(src, "\n")
	n := g.Intn(3)
	for i := 0; i < n; i++ {
		pos := g.Intn(len(lines) + 1)
		ins := c03Misbehaviours[g.Intn(len(c03Misbehaviours))]
		// only between top-level statements (lines starting at column 0 that do
		// not continue a block)
		for pos < len(lines) && (strings.HasPrefix(lines[pos], " ") || strings.HasPrefix(lines[pos], "}") || strings.HasPrefix(lines[pos], "default") || strings.HasPrefix(lines[pos], "case")) {
			pos++
		}
		lines = append(lines[:pos], append([]string{ins}, lines[pos:]...)...)
	}
	return strings.Join(lines, "\n")
}

// c03ModuleDir writes this run's module files to a scratch directory (for
// LocalImporter); the directory is reused and overwritten run after run.
func c03ModuleDir(files map[string]string) string {
	base := goos.Getenv("VERIF_OUT")
	if base == "" {
		base = goos.TempDir()
	} else {
		base = dirOf(base)
	}
	d := filepath.Join(base, fmt.Sprintf("c03mods-%d", goos.Getpid()))
	goos.RemoveAll(d)
	for n, t := range files {
		p := filepath.Join(d, n)
		goos.MkdirAll(filepath.Dir(p), 0o755)
		goos.WriteFile(p, []byte(t), 0o644)
	}
	return d
}

func init() {
	fw.Register(&fw.Scenario{
		Property: "C03",
		Name:     "fault-swarm",
		Run:      runC03,
		Level:    "exploration",
		Rule: "one run = one program drawn from all workload generators (core programs, producer/consumer topologies, blocking/non-terminating shapes, OS-touching templates, module trees) sprinkled with misbehaving host builtins " +
			"(returning errors, panicking with string/error/runtime error/custom value/nil dereference, stalling; called directly, inside try/map/sorted callbacks, in spawned threads, go statements and deferred calls), " +
			"evaluated on a reused VM through risor.Eval / vm.Call / Clone+Call from a second host task, under one seeded schedule with ALL fault kinds drawn at once: cancellation or deadline at a seeded step, simulated-OS errors on seeded calls, importer open/read errors, stale cancels. " +
			"Oracle: every API call (Parse, Compile, Eval, Run/RunCode/Call/Clone/Get/TOS, Error(), FriendlyErrorMessage()) returns; a panic at the API boundary or a dead worker process is a violation. " +
			"non-trivial = at least one fault or misbehaving builtin fired; distinct = distinct trace hash and program",
		Real: []string{"risor.Eval", "parser", "compiler", "vm", "object", "builtins", "modules os/filepath/fmt/time (and all default globals in a third of the runs)", "importer.FSImporter", "errz"},
		Stub: []string{"scheduler (sim)", "simos.SimOS", "SimFS", "misbehaving host builtins"},
		Assumptions: []string{
			"only the fault-path half of C03 is decided here; 'every source string' is an input-space (fuzzing) statement and is not claimed",
			"scripts synchronise through channels and wait(); unsynchronised sharing of one container between script goroutines is the script's responsibility by risor's own contract",
		},
	})
}

func runC03(rc *fw.RunCtx) {
	g := rc.Tape.Stream("gen")
	f := rc.Tape.Stream("fault")
	sched := rc.Tape.Stream("sched")
	strat := sim.DrawStrategy(sched, 300)
	s := sim.New(sched, strat, 25000)
	h := &Host{}
	sos := simos.New()
	if f.Chance(1, 2) {
		sos.YieldFn = s.Yield // slow disk: OS calls are scheduling points
	}
	sfs := NewSimFS()

	// ---- program
	kind := g.Intn(6)
	var src string
	switch kind {
	case 0:
		cg := newCoreGen(g)
		var b strings.Builder
		for _, st := range cg.Program(g.Range(2, 14)) {
			b.WriteString(st.Src + "\n")
		}
		b.WriteString(cg.FinalExpr() + "\n")
		src = b.String()
	case 1:
		src = genConc(g, "quick").Src
	case 2:
		src = genBlock(g).Src
	case 3:
		ts := osTemplates()
		var b strings.Builder
		for i := 0; i < g.Range(1, 5); i++ {
			t := ts[g.Intn(len(ts))]
			fmt.Fprintf(&b, "func probe%d() {\n%s\n}\n", i, strings.ReplaceAll(t.Body, "; ", "\n"))
			switch g.Intn(3) {
			case 0:
				fmt.Fprintf(&b, "try(probe%d, func(e) { return string(e) })\n", i)
			case 1:
				fmt.Fprintf(&b, "probe%d()\n", i)
			default:
				fmt.Fprintf(&b, "spawn(probe%d).wait()\n", i)
			}
		}
		src = b.String()
	case 4:
		p := genC14(g, f)
		for i, m := range p.Mods {
			sfs.Files[m.Path+".risor"] = moduleSource(p.Mods, i)
		}
		src = p.Main
	default:
		cg := newCoreGen(g)
		cg.MapHeavy = true
		var b strings.Builder
		for _, st := range cg.Program(g.Range(2, 8)) {
			b.WriteString(st.Src + "\n")
		}
		b.WriteString(genBlock(g).Src)
		src = b.String()
	}
	src = c03Sprinkle(g, src)
	c03MaxDepth.Store(0)
	if strings.Contains(src, "hdepth()") {
		// enough steps for the recursion to reach the VM's frame limit
		s.MaxSteps = 120000
		rc.Hit("shape_unbounded_recursion")
	}

	// ---- environment and faults
	extra := c03HostBuiltins(s, h, f, rc)
	th := &tickHost{ticks: map[string]int{}, failLeft: map[string]int{}}
	extra["tick"] = object.NewBuiltin("tick", func(ctx context.Context, args ...object.Object) object.Object { h.tick.Add(1); return object.Nil })
	extra["maybe_fail"] = th.failBuiltin()
	var opts []risor.Option
	useDefaults := g.Chance(1, 3)
	if useDefaults {
		rc.Hit("globals_default")
		opts = []risor.Option{risor.WithGlobals(extra), risor.WithConcurrency()}
	} else {
		gl := c12Globals()
		for k, v := range baseGlobals(extra) {
			gl[k] = v
		}
		opts = []risor.Option{risor.WithoutDefaultGlobals(), risor.WithGlobals(gl), risor.WithConcurrency()}
	}
	cfgNames := risor.NewConfig(opts...).GlobalNames()
	sort.Strings(cfgNames)
	// modules that cannot be imported: one does not compile, one does not parse
	sfs.Files["badcompile.risor"] = "x := 1\ny := undefined_name_in_module + x\n"
	sfs.Files["badparse.risor"] = "func broken( {\n"
	if g.Chance(1, 2) {
		src += "\n" + []string{
			"try(func() { import badcompile }, func(e) { return string(e) })",
			"try(func() { import badparse }, func(e) { return string(e) })",
			"spawn(func() { import badcompile }).wait()",
			"import badcompile",
		}[g.Intn(4)] + "\n"
	}
	// modules that import fine, for goroutines that linger after the evaluation
	// has returned and import them while the host already runs the next
	// evaluation on the same VM (and for several goroutines importing different
	// modules through one importer at the same time)
	for i := 0; i < 6; i++ {
		sfs.Files[fmt.Sprintf("okmod%d.risor", i)] = fmt.Sprintf("%sv := %d\nfunc get() { return v }\n", []string{"", "    ", "\n  "}[i%3], i)
	}
	if g.Chance(1, 3) {
		rc.Hit("shape_lingering_importers")
		var b strings.Builder
		for i, n := 0, g.Range(2, 6); i < n; i++ {
			fmt.Fprintf(&b, "go func() { for j := 0; j < %d; j++ { tick() }; import okmod%d; tick(); okmod%d.get() }()\n", g.Intn(120), i, i)
		}
		src = b.String() + src
	}
	var imp importer.Importer
	if g.Chance(1, 2) {
		imp = importer.NewFSImporter(importer.FSImporterOptions{GlobalNames: cfgNames, SourceFS: sfs, Extensions: []string{".risor", ".rsr"}})
	} else {
		rc.Hit("importer_local")
		imp = importer.NewLocalImporter(importer.LocalImporterOptions{GlobalNames: cfgNames, SourceDir: c03ModuleDir(sfs.Files), Extensions: []string{".risor", ".rsr"}})
	}
	if f.Chance(1, 8) {
		// risor's own VirtualOS (over an in-memory filesystem, configured as
		// little as possible) instead of the simulated OS, and a script that
		// touches the standard streams
		rc.Hit("os_virtual")
		mfs := ros.NewMockFS()
		mfs.MkdirAll("/simroot/work", 0o755)
		mfs.WriteFile("/simroot/work/a.txt", []byte("alpha"), 0o644)
		vos := ros.NewVirtualOS(context.Background(), ros.WithCwd("/simroot/work"),
			ros.WithMounts(map[string]*ros.Mount{"/": {Source: mfs, Target: "/", Type: "mem"}}), ros.WithExitHandler(func(int) {}))
		src += "\n" + []string{
			"try(func() { os.stderr.write(\"e\") }, func(e) { return 0 })",
			"try(func() { os.stdout.write(\"o\") }, func(e) { return 0 })",
			"try(func() { return os.stdin.read() }, func(e) { return 0 })",
			"spawn(func() { return try(func() { os.stderr.write(\"t\") }, func(e) { return 0 }) }).wait()",
			"se := os.stderr\nso := os.stdout",
		}[f.Intn(5)] + "\n"
		opts = append(opts, risor.WithOS(vos), risor.WithImporter(imp))
	} else {
		opts = append(opts, risor.WithOS(sos), risor.WithImporter(imp))
	}
	if f.Chance(1, 2) {
		n := 1 + f.Intn(3)
		for i := 0; i < n; i++ {
			sos.FailAt[1+f.Intn(12)] = true
		}
		sos.ShortWrite = f.Bool()
	}
	if f.Chance(1, 4) {
		for _, name := range sortedKeys(sfs.Files) {
			if f.Chance(1, 3) {
				if f.Bool() {
					sfs.FailOpen[name] = 1
				} else {
					sfs.FailRead[name] = 1
				}
			}
		}
	}
	for _, name := range sortedKeys(sfs.Files) {
		if f.Chance(1, 8) {
			th.failLeft[strings.TrimSuffix(name, ".risor")] = 1
		}
	}

	machine, err := vm.NewEmpty()
	if err != nil {
		panic("harness: " + err.Error())
	}
	ropts := append(append([]risor.Option{}, opts...), risor.WithVM(machine))
	ctx1, cancel1 := context.WithCancel(context.Background())
	if f.Chance(1, 12) {
		// the host's script text is indented, as when it was cut out of a
		// larger document, and the context is over before the call is made:
		// the parser is the first to notice
		src = "    " + strings.ReplaceAll(src, "\n", "\n    ")
		rc.Hit("fault_cancelled_before_parse")
		cancel1()
	}
	var cancel2 context.CancelFunc = func() {}
	ctxMain := ctx1
	if f.Chance(1, 6) {
		ctxMain, cancel2 = context.WithTimeout(ctx1, time.Duration(1+f.Intn(2000))*time.Millisecond)
		rc.Hit("fault_deadline_armed")
		s.AtStep(f.Intn(400), "advance-clock", func() { s.Advance(2500 * time.Millisecond) })
	}
	switch f.Intn(4) {
	case 0, 1:
		at := f.Intn(800)
		s.AtStep(at, "cancel", func() { rc.Hit("fault_cancel"); cancel1() })
	case 2:
		// aimed at a site: the cancel lands while some task sits inside a
		// primitive or a slow OS call
		armSiteFault(s, f, "cancel", func() { rc.Hit("fault_cancel_at_site"); cancel1() })
	}
	if kind == 3 && sos.YieldFn == nil && f.Chance(1, 2) {
		sos.YieldFn = s.Yield // OS-touching programs mostly meet a slow disk
	}
	if kind == 3 && sos.YieldFn != nil && f.Chance(3, 4) {
		// OS-touching program on a slow disk: the cancel lands while the script
		// sits inside the device's Close (or Write) of a file, which is when the
		// file's own cancellation watcher goes for the same file
		site := []string{"simos.File.Close", "simos.File.Close", "simos.File.Write", "simos.File.Read"}[f.Intn(4)]
		s.AtSite(site, 1+f.Intn(2)*f.Intn(3), "cancel", func() { rc.Hit("fault_cancel_inside_file_op"); cancel1() })
	}

	// ---- API calls, each guarded
	var panics []string
	api := func(name string, fn func()) {
		defer func() {
			if r := recover(); r != nil {
				panics = append(panics, fmt.Sprintf("%s: %v", name, r))
			}
		}()
		fn()
	}
	render := func(name string, err error) {
		if err == nil {
			return
		}
		api(name+".Error()", func() { _ = err.Error() })
		var fe errz.FriendlyError
		if errors.As(err, &fe) {
			api(name+".FriendlyErrorMessage()", func() { _ = fe.FriendlyErrorMessage() })
		}
	}
	finished := false
	second := g.Chance(1, 2)
	bgLater := g.Chance(1, 3)
	cloneCall := g.Chance(1, 3)
	var staleCancel atomic.Pointer[context.CancelFunc] // written by the main task, read at teardown
	s.Go("main", "main", func() {
		defer func() { finished = true }()
		api("risor.Eval", func() {
			v, err := risor.Eval(ctxMain, src, ropts...)
			render("risor.Eval", err)
			if v != nil {
				api("result.Inspect", func() { _ = v.Inspect() })
			}
		})
		api("vm.TOS/GlobalNames/Get", func() {
			machine.TOS()
			for _, n := range machine.GlobalNames() {
				machine.Get(n)
			}
		})
		if second {
			// the same VM again, with a fresh context; the first context is
			// cancelled during this run (stale cancel)
			ctx3, cancel3 := context.WithCancel(context.Background())
			staleCancel.Store(&cancel3)
			if bgLater {
				// a context that can never be cancelled, after cancellable ones
				ctx3 = context.Background()
			}
			s.AtStep(s.Step+f.Intn(60), "stale-cancel", func() { rc.Hit("fault_stale_cancel"); cancel1() })
			api("risor.Eval#2", func() {
				_, err := risor.Eval(ctx3, "func later(x) { return x + 1 }\nn := 0\nfor i := 0; i < 30; i++ { n += i }\nn", ropts...)
				render("risor.Eval#2", err)
			})
			api("vm.Call", func() {
				if fnObj, err := machine.Get("later"); err == nil {
					if fn, ok := fnObj.(*object.Function); ok {
						_, err := machine.Call(ctx3, fn, []object.Object{object.NewInt(1)})
						render("vm.Call", err)
					}
				}
			})
			if cloneCall {
				s.Go("host", "clone-caller", func() {
					api("vm.Clone+Call", func() {
						clone, err := machine.Clone()
						if err != nil {
							return
						}
						if fnObj, err := machine.Get("later"); err == nil {
							if fn, ok := fnObj.(*object.Function); ok {
								_, err := clone.Call(ctx3, fn, []object.Object{object.NewInt(2)})
								render("clone.Call", err)
							}
						}
					})
				})
			}
		}
		// risor.Call by name: a function, a plain value, a name that was declared
		// but never given a value, a name that does not exist
		api("risor.Call", func() {
			csrc := "func cfn(a) { return a }\ncval := 3\nif false { cunset := 1 }\n"
			cfg := risor.NewConfig(opts...)
			ast, err := parser.Parse(context.Background(), csrc)
			if err != nil {
				return
			}
			code, err := compiler.Compile(ast, cfg.CompilerOpts()...)
			if err != nil {
				return
			}
			for _, name := range []string{"cfn", "cval", "cunset", "cmissing"} {
				_, err := risor.Call(context.Background(), code, name, []object.Object{object.NewInt(1)}, opts...)
				render("risor.Call("+name+")", err)
			}
		})
		// the "template VM" host: vm.New + Run once, serve requests with
		// Clone + Call, evaluate something else on the VM, serve again
		api("template-vm", func() {
			cfg := risor.NewConfig(opts...)
			tsrc := "func serve(a) { return a * 2 }\ntotal := 0\n"
			ast, err := parser.Parse(context.Background(), tsrc)
			if err != nil {
				return
			}
			code, err := compiler.Compile(ast, cfg.CompilerOpts()...)
			if err != nil {
				return
			}
			tm := vm.New(code, cfg.VMOpts()...)
			serve := func(tag string) {
				cl, err := tm.Clone()
				render("template "+tag+" Clone", err)
				if cl == nil {
					return
				}
				fnObj, err := tm.Get("serve")
				if err != nil || fnObj == nil {
					return
				}
				if fn, ok := fnObj.(*object.Function); ok {
					_, err = cl.Call(context.Background(), fn, []object.Object{object.NewInt(2)})
					render("template "+tag+" Call", err)
				}
			}
			serve("before-run") // (a clone of a VM that has never run)
			render("template Run", tm.Run(context.Background()))
			serve("after-run")
			// something else is evaluated on the template VM (and fails)
			_, err = risor.Eval(context.Background(), "nosuchfunction_zz(1)", append(append([]risor.Option{}, opts...), risor.WithVM(tm))...)
			render("template Eval(other)", err)
			serve("after-other-code")
		})
		// the notebook host: one incremental compiler and one VM; a cell is
		// compiled but its run is skipped (or refused); then the host asks the VM
		// about the names the compiler knows
		api("notebook", func() {
			cfg := risor.NewConfig(opts...)
			c, err := compiler.New(cfg.CompilerOpts()...)
			if err != nil {
				return
			}
			ast1, err := parser.Parse(context.Background(), "cell1 := 1\n")
			if err != nil {
				return
			}
			code, err := c.Compile(ast1)
			if err != nil {
				return
			}
			nm := vm.New(code, cfg.VMOpts()...)
			render("notebook Run#1", nm.Run(context.Background()))
			ast2, err := parser.Parse(context.Background(), "cell2 := cell1 + 1\nfunc cellf() { return cell2 }\n")
			if err != nil {
				return
			}
			if _, err := c.Compile(ast2); err != nil {
				return
			}
			// (no Run: the request's context had expired)
			for _, n := range []string{"cell1", "cell2", "cellf", "nosuch"} {
				_, err := nm.Get(n)
				render("notebook Get("+n+")", err)
			}
			nm.GlobalNames()
			nm.TOS()
			render("notebook Run#2", nm.Run(context.Background()))
			for _, n := range []string{"cell1", "cell2", "cellf"} {
				nm.Get(n)
			}
		})
		// a compile of garbage left-overs must also just return
		api("parser.Parse/compiler.Compile", func() {
			ast, err := parser.Parse(context.Background(), src+"\n)")
			render("parser.Parse", err)
			if ast != nil {
				_, err = compiler.Compile(ast)
				render("compiler.Compile", err)
			}
		})
	})
	s.Until = func() bool { return finished && len(aliveExcept(s, "vm.watcher", "file.watcher")) == 0 }
	if raceBuild {
		// phase R: a seeded serial prefix, then all tasks are released together;
		// the window is closed again after a short spin so that runaway
		// programs come back under the step limit
		prefix := sched.Intn(200)
		spin := 2000 + sched.Intn(400000)
		s.AtStep(prefix, "release-parallel-window", func() {
			rc.Hit("fault_parallel_window")
			s.FreeRun()
			for i := 0; i < spin; i++ {
				c06Spin.Add(1)
			}
			s.EndFreeRun()
		})
	}
	verdict := s.Run()
	s.Shutdown(func() { cancel1() }, func() { cancel2() }, func() {
		if c := staleCancel.Load(); c != nil {
			(*c)()
		}
	})
	rc.AbsorbSim(s, strat.Name())
	rc.Digest ^= sim.HashString(src)
	rc.Hit("verdict_" + verdict.String())
	rc.Hit(fmt.Sprintf("payload_%d", kind))
	rc.Count("fault_os_errors_injected", sos.Injected)
	rc.Count("fault_importer_errors_injected", sfs.Injected)
	rc.Count("fault_module_body_failures", th.failed)
	fired := sos.Injected + sfs.Injected + th.failed
	for k, v := range rc.Counters {
		if strings.HasPrefix(k, "fault_") {
			fired += v
		}
	}
	rc.NonTrivial = fired > 0
	rc.Sample = map[string]any{"program": src, "strategy": strat.Name(), "verdict": verdict.String(), "os_faults": sos.Injected, "schedule": s.RenderTrace(30)}
	if raceBuild {
		rc.Hit("phase_R")
		for _, rep := range newRaceReports() {
			cls, inRisor := raceClass(rep)
			if !inRisor {
				rc.Hit("race_reports_outside_risor")
				continue
			}
			if len(rep) > 1800 {
				rep = rep[:1800] + "…"
			}
			rc.Sample["race_report"] = rep
			rc.Violate(cls, "race detector report during this run (a data race on interpreter state is a fatal 'concurrent map' crash waiting to happen):\n%s", rep)
			return
		}
	}
	if d := c03MaxDepth.Load(); d > c03HostStackBound {
		rc.Violate("host-stack/unbounded", "a script drove the host goroutine's stack to more than %d Go frames (the VM allows itself 1024 frames): nothing bounds it, and a Go stack overflow ends the process", c03HostStackBound)
		return
	}
	if len(panics) > 0 {
		apiName := panics[0]
		if i := strings.Index(apiName, ":"); i > 0 {
			apiName = apiName[:i]
		}
		rc.Violate("panic/api/"+apiName, "a panic propagated to the embedding caller: %s", strings.Join(panics, " | "))
		return
	}
}
