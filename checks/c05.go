package checks

import (
	"bytes"
	"context"
	"fmt"
	goos "os"
	"runtime"
	"sort"
	"strings"
	"sync"

	"github.com/risor-io/risor"
	"github.com/risor-io/risor/compiler"
	"github.com/risor-io/risor/internal/verifhook"
	modAll "github.com/risor-io/risor/modules/all"
	modFilepath "github.com/risor-io/risor/modules/filepath"
	modFmt "github.com/risor-io/risor/modules/fmt"
	modHTTP "github.com/risor-io/risor/modules/http"
	modJSON "github.com/risor-io/risor/modules/json"
	modMath "github.com/risor-io/risor/modules/math"
	modOs "github.com/risor-io/risor/modules/os"
	modStrings "github.com/risor-io/risor/modules/strings"
	"github.com/risor-io/risor/object"
	ros "github.com/risor-io/risor/os"
	"github.com/risor-io/risor/parser"
	"github.com/risor-io/risor/verif/fw"
	"github.com/risor-io/risor/verif/sim"
	"github.com/risor-io/risor/vm"
)

// C05: Go's random map-iteration start is the nondeterminism source. The
// mapseam overlay routes every `range` over a map in risor's sources through
// verifhook.MapEntries, so the order of each loop visit is chosen here.

type orderPolicy struct {
	kind   int // 0 canonical, 1 reverse, 2 rotate, 3 random, 4 only-one-site reversed
	rot    int
	st     *sim.Stream
	only   string
	visits map[string]int // site -> visits with >= 2 entries
	uncont map[string]int
}

func (p *orderPolicy) order(site string, n int) []int {
	if strings.HasSuffix(site, "!uncontrolled") {
		p.uncont[strings.TrimSuffix(site, "!uncontrolled")]++
		return nil
	}
	p.visits[site]++
	perm := make([]int, n)
	for i := range perm {
		perm[i] = i
	}
	kind := p.kind
	if kind == 4 {
		if site != p.only {
			return perm
		}
		kind = 1
	}
	switch kind {
	case 1:
		for i := range perm {
			perm[i] = n - 1 - i
		}
	case 2:
		for i := range perm {
			perm[i] = (i + p.rot) % n
		}
	case 3:
		for i := n - 1; i > 0; i-- {
			j := p.st.Intn(i + 1)
			perm[i], perm[j] = perm[j], perm[i]
		}
	}
	return perm
}

// c05Host is a host struct with map fields and a method taking a map.
type c05Host struct {
	Tags   map[string]string
	Counts map[string]int
}

func (h *c05Host) Join(m map[string]string) string {
	var ks []string
	for k, v := range m {
		ks = append(ks, k+"="+v)
	}
	sort.Strings(ks)
	return strings.Join(ks, ",")
}

type c05Pt struct {
	A int
	B string
	C float64
}

// Describe takes a struct parameter: a script map argument goes through the
// struct converter.
func (h *c05Host) Describe(p c05Pt) string { return fmt.Sprintf("%d/%s/%g", p.A, p.B, p.C) }

func (h *c05Host) Size() int { return len(h.Tags) + len(h.Counts) }

type c05Obs struct {
	Result   string
	Err      string
	Log      string
	Bytecode []byte
	Remarsh  []byte
	Stage    string
}

func (o *c05Obs) diff(b *c05Obs) string {
	switch {
	case o.Stage != b.Stage:
		return "stage"
	case o.Err != b.Err:
		return "error-text"
	case !bytes.Equal(o.Bytecode, b.Bytecode):
		return "bytecode"
	case !bytes.Equal(o.Remarsh, b.Remarsh):
		return "remarshal"
	case o.Log != b.Log:
		return "side-effect-order"
	case o.Result != b.Result:
		return "result"
	}
	return ""
}

func c05Globals(h *Host) map[string]any {
	return map[string]any{
		"mark": h.Recorder("mark"), "emit": h.RecorderRet("emit", 1), "emits": h.Recorder("emits"),
		"json": modJSON.Module(), "strings": modStrings.Module(), "fmt": modFmt.Module(), "math": modMath.Module(), "os": modOs.Module(),
		"http": modHTTP.Module(), "filepath": modFilepath.Module(),
		// host-supplied Go maps and a struct with map fields (conversion paths)
		"hm":  map[string]any{"z": 1, "a": []any{1, 2}, "m": map[string]any{"k": "v", "b": 2}, "q": "s"},
		"hmi": map[string]int{"one": 1, "two": 2, "three": 3},
		"hs":  &c05Host{Tags: map[string]string{"x": "1", "a": "2", "m": "3"}, Counts: map[string]int{"b": 2, "a": 1}},
	}
}

// c05Once runs the whole pipeline once under the given order policy.
func c05Once(src string, pol *orderPolicy) *c05Obs {
	prev := verifhook.MapOrderFn
	verifhook.MapOrderFn = pol.order
	defer func() { verifhook.MapOrderFn = prev }()
	obs := &c05Obs{}
	h := &Host{}
	ctx := context.Background()
	// configuration flags ride in the first line of the program ("// flags: ...")
	useDefaults := strings.Contains(firstLineOf(src), "defaults")
	useVOS := strings.Contains(firstLineOf(src), "vos")
	useDeny := strings.Contains(firstLineOf(src), "deny")
	useOverride := strings.Contains(firstLineOf(src), "override")
	useLocal := strings.Contains(firstLineOf(src), "local")
	var opts []risor.Option
	if useDefaults {
		// the default global environment is assembled inside this repetition,
		// under this repetition's iteration orders
		opts = []risor.Option{risor.WithGlobals(c05Globals(h)), risor.WithConcurrency()}
	} else {
		opts = baseOpts(c05Globals(h))
	}
	var mocks []*ros.MockFS
	if useVOS {
		// risor's own VirtualOS with nested mount points over in-memory filesystems
		for i := 0; i < 3; i++ {
			mocks = append(mocks, ros.NewMockFS())
		}
		for i, tag := range []string{"root-fs", "data-fs", "deep-fs"} {
			// (a mount at "/" hands its source paths without the leading slash)
			mocks[i].WriteFile("/seed.txt", []byte(tag), 0o644)
			mocks[i].WriteFile("seed.txt", []byte(tag), 0o644)
			mocks[i].MkdirAll("/dir", 0o755)
			for _, n := range []string{"/dir/c.txt", "/dir/a.txt", "/dir/b.txt", "/dir/d.txt"} {
				mocks[i].WriteFile(n, []byte(tag+n), 0o644)
			}
		}
		vos := ros.NewVirtualOS(ctx, ros.WithCwd("/"), ros.WithMounts(map[string]*ros.Mount{
			"/":          {Source: mocks[0], Target: "/", Type: "mem"},
			"/data":      {Source: mocks[1], Target: "/data", Type: "mem"},
			"/data/deep": {Source: mocks[2], Target: "/data/deep", Type: "mem"},
		}), ros.WithEnvironment(map[string]string{"B": "2", "A": "1", "C": "3"}))
		opts = append(opts, risor.WithOS(vos))
	}
	if useDeny {
		opts = append(opts, risor.WithoutGlobals("os.exit", "os.getpid", "math.nosuch", "strings.nosuch", "nosuchglobal"))
	}
	if useOverride {
		opts = append(opts, risor.WithGlobalOverride("math.pi", 3), risor.WithGlobalOverride("strings.sep", "|"), risor.WithGlobalOverride("ovr", 7), risor.WithGlobalOverride("math.tau", 6))
	}
	if useLocal {
		opts = append(opts, risor.WithLocalImporter(c05ModuleDir()))
	}
	cfg := risor.NewConfig(opts...)
	if useDefaults {
		obs.Log += fmt.Sprintf("all.Builtins:%d\n", len(modAll.Builtins()))
	}
	// what a host sees when it asks the configuration for its globals
	gl := cfg.Globals()
	cgl := cfg.CombinedGlobals()
	obs.Log += fmt.Sprintf("cfg-globals:%d/%d names:%d\n", len(gl), len(cgl), len(cfg.GlobalNames()))
	defer func() {
		// where the files ended up is observable too
		for i, m := range mocks {
			for _, name := range []string{"/f.txt", "/g.txt", "/top.txt", "top.txt", "/data/f.txt", "data/f.txt", "/deep/g.txt", "/data/deep/g.txt", "data/deep/g.txt"} {
				if b, err := m.ReadFile(name); err == nil {
					obs.Log += fmt.Sprintf("\nfs%d:%s=%q", i, name, b)
				}
			}
		}
	}()
	ast, err := parser.Parse(ctx, src)
	if err != nil {
		obs.Stage, obs.Err = "parse", err.Error()
		return obs
	}
	code, err := compiler.Compile(ast, cfg.CompilerOpts()...)
	if err != nil {
		obs.Stage, obs.Err = "compile", err.Error()
		return obs
	}
	bc, err := compiler.MarshalCode(code)
	if err != nil {
		obs.Stage, obs.Err = "marshal", err.Error()
		return obs
	}
	obs.Bytecode = bc
	code2, err := compiler.UnmarshalCode(bc)
	if err != nil {
		obs.Stage, obs.Err = "unmarshal", err.Error()
		return obs
	}
	bc2, err := compiler.MarshalCode(code2)
	if err != nil {
		obs.Stage, obs.Err = "remarshal", err.Error()
		return obs
	}
	obs.Remarsh = bc2
	var res object.Object
	func() {
		defer func() {
			if r := recover(); r != nil {
				obs.Stage, obs.Err = "panic", fmt.Sprint(r)
			}
		}()
		res, err = vm.Run(ctx, code, cfg.VMOpts()...)
	}()
	if obs.Stage == "panic" {
		return obs
	}
	if err != nil {
		obs.Stage, obs.Err = "run", err.Error()
	} else if res != nil {
		obs.Result = string(res.Type()) + ":" + safeInspect(res)
	}
	obs.Log += strings.Join(h.LogStrings(), "\n")
	return obs
}

var c05DirOnce sync.Once
var c05Dir string

// c05ModuleDir is a scratch directory with one module for WithLocalImporter.
func c05ModuleDir() string {
	c05DirOnce.Do(func() {
		base := goos.Getenv("VERIF_OUT")
		if base == "" {
			base = goos.TempDir()
		} else {
			base = dirOf(base)
		}
		d, err := goos.MkdirTemp(base, "c05mods-")
		if err != nil {
			panic("harness: " + err.Error())
		}
		goos.WriteFile(d+"/lm.risor", []byte("tbl := {\"b\": 2, \"a\": 1, \"c\": 3}\nfunc f(m) { out := []; for k, v := range m { out.append(k) }; for k, v := range tbl { out.append(k) }; return out }\nfunc g3() { return 3 }\nfunc g4() { return 4 }\n"), 0o644)
		c05Dir = d
	})
	return c05Dir
}

func firstLineOf(s string) string {
	if i := strings.IndexByte(s, '\n'); i >= 0 {
		return s[:i]
	}
	return s
}

func genC05Program(g *sim.Stream, tier string) string {
	cg := newCoreGen(g)
	cg.MapHeavy = true
	useDefaults := g.Chance(1, 3)
	useVOS := g.Chance(1, 4)
	useDeny := g.Chance(1, 6)
	useOverride := g.Chance(1, 6)
	useLocal := g.Chance(1, 6)
	maxN := 10
	if tier == "thorough" {
		maxN = 40
	}
	stmts := cg.Program(g.Range(2, maxN))
	var b strings.Builder
	b.WriteString("// flags:")
	if useDefaults {
		b.WriteString(" defaults")
	}
	if useVOS {
		b.WriteString(" vos")
	}
	if useDeny {
		b.WriteString(" deny")
	}
	if useOverride {
		b.WriteString(" override")
	}
	if useLocal {
		b.WriteString(" local")
	}
	b.WriteString("\n")
	for _, st := range stmts {
		b.WriteString(st.Src)
		b.WriteString("\n")
	}
	if useDefaults {
		// sprintf exists twice among the default globals (builtins and fmt);
		// which one a script sees must not vary
		fmt.Fprintf(&b, "emits(sprintf(\"%%v|%%v\", %s, %s))\n", cg.mapExpr(1), cg.listExpr(1))
		b.WriteString("emits(string(math.sum({10000000000000000.0, 1.0, -10000000000000000.0, 2.5, 3.25})))\n")
		b.WriteString("emits(string(math.sum({0.1, 0.2, 0.3, 0.4, 0.5, 0.6, 0.7})))\n")
	}
	if useVOS {
		b.WriteString("os.write_file(\"/data/f.txt\", \"to-data\")\nos.write_file(\"/data/deep/g.txt\", \"to-deep\")\nos.write_file(\"/top.txt\", \"to-root\")\n")
		b.WriteString("emits(string(os.read_file(\"/data/seed.txt\")))\nemits(string(os.read_file(\"/data/deep/seed.txt\")))\nemits(string(os.read_file(\"/seed.txt\")))\n")
		b.WriteString("emits(string(try(func() { return os.read_dir(\"/data\").map(func(e) { return e.name }) }, func(e) { return string(e) })))\n")
		b.WriteString("emits(string(sorted(os.environ())))\nemits(string(os.environ()))\n")
		b.WriteString("wk := []\ntry(func() { filepath.walk_dir(\"/data/dir\", func(p, d, e) { wk.append(p) }) }, func(e) { wk.append(string(e)) })\nemits(string(wk))\n")
		b.WriteString("wk2 := []\ntry(func() { filepath.walk_dir(\"/dir\", func(p, d, e) { wk2.append(p) }) }, func(e) { wk2.append(string(e)) })\nemits(string(wk2))\n")
		b.WriteString("emits(string(try(func() { return os.read_dir(\"/data/dir\").map(func(e) { return e.name }) }, func(e) { return string(e) })))\n")
		b.WriteString("emits(string(try(func() { return os.read_dir(\"/dir\").map(func(e) { return e.name }) }, func(e) { return string(e) })))\n")
	}
	if useOverride {
		b.WriteString("emits(string(math.pi))\nemits(string(ovr))\n")
	}
	if useLocal {
		fmt.Fprintf(&b, "import lm\nemits(string(lm.f(%s)))\n", cg.mapExpr(1))
		if g.Bool() {
			// several names taken out of one module in one statement, some
			// under another name
			b.WriteString([]string{
				"from lm import f as lf, tbl as lt, g3\nemits(string(lf(lt)))\nemit(0, g3())\n",
				"from lm import (tbl, f, g3 as three, g4)\nemits(string(f(tbl)))\nemit(0, three() + g4())\n",
				"func lfn() {\n from lm import g4 as a4, g3 as a3, tbl as t\n return [a3(), a4(), t]\n}\nemits(string(lfn()))\n",
				"from lm import g3 as gg, g4, f as ff\nemit(0, gg() + g4())\nemits(string(ff({})))\n",
			}[g.Intn(4)])
		}
	}
	// extra observable uses of containers
	maps := cg.varsOf(tMap, false)
	for i := 0; i < g.Intn(6); i++ {
		m := cg.mapExpr(1)
		if len(maps) > 0 && g.Bool() {
			m = maps[g.Intn(len(maps))].Name
		}
		switch g.Intn(30) {
		case 27:
			// the printed form of a thread object (and of a container holding one)
			fmt.Fprintf(&b, "thx%d := spawn(func(a) { return a }, %d)\nemits(string(thx%d))\nemits(string([thx%d, 1]))\nemits(string(thx%d.wait()))\n", i, i, i, i, i)
		case 28:
			fmt.Fprintf(&b, "emits(string(encode([{\"b\": 1, \"a\": 2, \"c\": 3, \"d\": 4}, {\"b\": 5, \"a\": 6, \"c\": 7, \"d\": 8}], \"csv\")))\nemits(string(try(func() { return encode([%s], \"csv\") }, func(e) { return string(e) })))\n", m)
		case 29:
			fmt.Fprintf(&b, "emits(string(try(func() { return encode(%s, \"urlquery\") }, func(e) { return string(e) })))\nemits(string(try(func() { return encode(%s, \"json\") }, func(e) { return string(e) })))\n", m, cg.setExpr(1))
		case 22:
			b.WriteString("emits(hs.Describe({\"C\": 1.5, \"B\": \"bee\", \"A\": 4}))\nemits(string(hs.Size()))\n")
		case 23:
			fmt.Fprintf(&b, "emits(string(spawn(func(a) { return [a, len(%s)] }, %d).wait()))\n", m, i)
		case 24:
			b.WriteString("rq := http.request(\"http://h.example/p?b=1&a=2&c=3\", {\"params\": {\"z\": \"1\", \"y\": \"2\", \"x\": 3}, \"headers\": {\"B-H\": \"1\", \"A-H\": \"2\", \"C-H\": \"3\"}, \"method\": \"POST\", \"data\": {\"k2\": 2, \"k1\": 1}})\nemits(string(rq.url))\nemits(string(rq.query))\nemits(string(rq.header))\n")
		case 25:
			fmt.Fprintf(&b, "emits(string(try(func() { return %s.nosuch }, func(e) { return string(e) })))\n", m)
		case 26:
			b.WriteString("emits(string(keys(hs.__type__.attributes)))\nemits(string(hs.__type__.name))\n")
			b.WriteString("emits(string(try(func() { return hs.Nosuch }, func(e) { return string(e) })))\nemits(string(try(func() { return math.nosuch }, func(e) { return string(e) })))\n")
		case 8:
			fmt.Fprintf(&b, "cp%d := %s.copy()\nemits(string(cp%d))\n", i, m, i)
		case 9:
			fmt.Fprintf(&b, "up%d := %s\nup%d.update(%s)\nemits(string(up%d))\n", i, cg.mapExpr(1), i, m, i)
		case 10:
			fmt.Fprintf(&b, "emits(string(%s == %s))\n", m, cg.mapExpr(1))
		case 11:
			fmt.Fprintf(&b, "emits(string(%s.intersection(%s)))\nemits(string(%s.union(%s)))\n", cg.setExpr(1), cg.setExpr(1), cg.setExpr(1), cg.setExpr(1))
		case 12:
			fmt.Fprintf(&b, "emits(string(%s == %s))\nemits(string(any(%s)))\nemits(string(all(%s)))\n", cg.setExpr(1), cg.setExpr(1), cg.setExpr(1), cg.setExpr(1))
		case 13:
			b.WriteString("emits(string(hm))\nemits(string(hm[\"m\"]))\nfor k, v := range hm { emits(k) }\n")
		case 14:
			b.WriteString("emits(string(hmi))\nemits(string(keys(hmi)))\n")
		case 15:
			b.WriteString("emits(string(hs.Tags))\nhs.Counts = {\"z\": 26, \"y\": 25}\nemits(string(hs.Counts))\n")
		case 16:
			b.WriteString("emits(hs.Join({\"p\": \"1\", \"o\": \"2\", \"n\": \"3\"}))\n")
		case 17:
			b.WriteString("emits(string(json.unmarshal(\"{\\\"b\\\": 1, \\\"a\\\": [1, {\\\"z\\\": 0, \\\"y\\\": 1}]}\")))\n")
		case 18:
			b.WriteString("emits(string(decode(\"{\\\"k2\\\": 2, \\\"k1\\\": 1}\", \"json\")))\n")
		case 19:
			fmt.Fprintf(&b, "emits(string(type(hs)))\nemits(string(keys(%s)))\n", m)
		case 20:
			fmt.Fprintf(&b, "emits(string(list(%s)))\nemits(string(set(%s)))\n", m, cg.listExpr(1))
		case 21:
			fmt.Fprintf(&b, "emits(encode(%s, \"json\"))\n", m)
		case 0:
			fmt.Fprintf(&b, "emits(string(json.marshal(%s)))\n", m)
		case 1:
			fmt.Fprintf(&b, "emits(fmt.sprintf(\"%%v\", %s))\n", m)
		case 2:
			fmt.Fprintf(&b, "emits(string(%s.keys()))\n", m)
		case 3:
			fmt.Fprintf(&b, "emits(string(%s.values()))\n", m)
		case 4:
			fmt.Fprintf(&b, "emits(string(%s.items()))\n", m)
		case 5:
			fmt.Fprintf(&b, "emits(string(sorted(%s)))\n", m)
		case 6:
			fmt.Fprintf(&b, "emits(string(%s))\nemits(string(%s.union(%s)))\n", cg.setExpr(1), cg.setExpr(1), cg.setExpr(1))
		default:
			fmt.Fprintf(&b, "tmx%d := %s\nfor k, v := range tmx%d { emits(k); emit(0, v) }\n", i, m, i)
		}
	}
	if g.Chance(1, 6) {
		// an error message that may list names
		b.WriteString("[1, 2].nosuchmethod()\n")
	}
	if g.Chance(1, 25) {
		// rejected by the compiler after everything above was compiled
		if g.Bool() {
			b.WriteString("undefined_name_zz + 1\n")
		} else {
			// two default values the compiler does not support: which one is
			// named in the error must not vary
			b.WriteString("func baddef(a=[1], b={\"k\": 2}, c=(1 + 2)) { return a }\n")
		}
	}
	if g.Chance(1, 10) {
		// functions with several (supported) default values
		fmt.Fprintf(&b, "func defs%d(a, b=2, c=\"x\", d=1.5, e=nil, f=true) { return [a, b, c, d, e, f] }\nemits(string(defs%d(1)))\nemits(string(defs%d(1, 5, \"y\")))\n", 0, 0, 0)
	}
	b.WriteString(cg.FinalExpr())
	b.WriteString("\n")
	return b.String()
}

func init() {
	fw.Register(&fw.Scenario{
		Property: "C05",
		Name:     "map-order-permutation",
		Run:      runC05,
		Level:    "exploration",
		Rule: "one run = one generated program biased towards map/set literals (duplicate keys, side-effecting key values), iteration, printing, keys/values/items, json, sprintf; parsed, compiled, marshalled, re-marshalled and evaluated K times, " +
			"each time with a different tape-drawn permutation policy (canonical, reverse, rotate, random per visit) applied to every `range`-over-map site of risor's own sources (overlay seam), with garbage and GC between repetitions; " +
			"non-trivial = at least one rewritten range site was visited with >= 2 entries; distinct = distinct program text",
		Real: []string{"parser", "ast", "compiler (incl. MarshalCode/UnmarshalCode)", "vm", "object (map, set, typeconv)", "builtins", "modules json/fmt/strings", "risor.Config"},
		Stub: []string{"map iteration order (verifhook.MapEntries via go build -overlay generated by tools/mapseam)", "host builtins mark/emit/emits"},
		Assumptions: []string{
			"the overlay rewrite of `for k, v := range m` into iteration over a snapshot of the entries preserves behaviour (no risor loop deletes not-yet-visited entries of the map it ranges over)",
			"sites whose key type has no canonical order are left in Go's order and listed as uncontrolled",
			"rand and time are not generated; goroutines only as spawn(...).wait(); the printed form of host Go pointers does not occur",
			"range sites never visited by the workload: vm/run.go (4 sites, unexported helpers used only by risor's own tests), object/object.go Keys and object/set.go Difference (no caller reachable from a script), modules/exec (2, would start real processes), modules/http/response.go (needs a network peer), vm.reloadCode (incremental evaluation: covered through C18, whose equality oracle would see an order dependence)",
		},
	})
}

func runC05(rc *fw.RunCtx) {
	g := rc.Tape.Stream("gen")
	ord := rc.Tape.Stream("maporder")
	src := genC05Program(g, rc.Tier)
	K := 6
	if rc.Tier == "thorough" {
		K = 24
	}
	var base *c05Obs
	var basePol *orderPolicy
	visited := map[string]int{}
	uncont := map[string]int{}
	var garbage [][]byte
	for r := 0; r < K; r++ {
		pol := &orderPolicy{st: ord, visits: map[string]int{}, uncont: map[string]int{}}
		if r == 0 {
			pol.kind = 0
		} else {
			pol.kind = 1 + ord.Intn(3)
			pol.rot = 1 + ord.Intn(5)
		}
		// address perturbation
		if r%3 == 1 {
			for i := 0; i < 8; i++ {
				garbage = append(garbage, make([]byte, 1024*(1+ord.Intn(16))))
			}
			runtime.GC()
		}
		obs := c05Once(src, pol)
		for s, n := range pol.visits {
			visited[s] += n
		}
		for s, n := range pol.uncont {
			uncont[s] += n
		}
		if base == nil {
			base, basePol = obs, pol
			continue
		}
		if d := base.diff(obs); d != "" {
			// locate: reverse one site at a time against the canonical run
			locus := "unlocated"
			var sites []string
			for s := range visited {
				sites = append(sites, s)
			}
			sort.Strings(sites)
			for _, s := range sites {
				one := &orderPolicy{kind: 4, only: s, st: ord, visits: map[string]int{}, uncont: map[string]int{}}
				if base.diff(c05Once(src, one)) != "" {
					locus = s
					break
				}
			}
			rc.Sample = map[string]any{"program": src, "policy": []string{"canonical", "reverse", "rotate", "random"}[pol.kind], "canonical": renderObs(base), "permuted": renderObs(obs), "locus": locus}
			rc.Violate("nondeterminism/"+d+"/"+locus, "repetition %d (policy %s) differs from the canonical-order run in %s; order-sensitive range site: %s\n canonical: %s\n permuted:  %s",
				r, []string{"canonical", "reverse", "rotate", "random"}[pol.kind], d, locus, renderObs(base), renderObs(obs))
			return
		}
	}
	_ = basePol
	_ = garbage
	for i := 0; i < 3; i++ {
		psrc, problem := c05SortedProbe(g)
		rc.Count("sorted_order_probes", 1)
		if problem != "" {
			rc.Sample = map[string]any{"program": psrc, "problem": problem}
			rc.Violate("sorted-order/"+strings.SplitN(problem, ":", 2)[0], "members of one type do not come out in sorted order: %s\n program: %s", problem, psrc)
			return
		}
	}
	rc.NonTrivial = len(visited) > 0
	rc.Digest = sim.HashString(src)
	for s, n := range visited {
		rc.Count("probe_site_"+s, n)
	}
	for s, n := range uncont {
		rc.Count("uncontrolled_site_"+s, n)
	}
	rc.Count("repetitions", K)
	rc.Hit("stage_" + map[bool]string{true: "ok", false: base.Stage}[base.Stage == ""])
	rc.Sample = map[string]any{"program": src, "observation": renderObs(base), "sites_visited": len(visited)}
}

func renderObs(o *c05Obs) string {
	log := o.Log
	if len(log) > 300 {
		log = log[:300] + "…"
	}
	return fmt.Sprintf("stage=%q err=%q result=%s bytecode=%dB log=%q", o.Stage, o.Err, o.Result, len(o.Bytecode), strings.ReplaceAll(log, "\n", " "))
}

// c05SortedProbe is the literal half of "maps and sets iterate and print in
// sorted order": a set (or map) of same-typed members, written in tape order,
// must list, iterate and print in the natural order of the values, whatever
// ordering key the implementation uses internally.
func c05SortedProbe(g *sim.Stream) (src, problem string) {
	kind := g.Intn(6)
	defer func() {
		if problem != "" {
			problem = []string{"int", "string", "byte_slice", "float", "byte", "map-keys"}[kind] + ": " + problem
		}
	}()
	n := g.Range(2, 9)
	type member struct {
		lit string
		i   int64
		s   string
		f   float64
	}
	seen := map[string]bool{}
	var ms []member
	for tries := 0; len(ms) < n && tries < 64; tries++ {
		var m member
		switch kind {
		case 0:
			m.i = int64(g.Range(-1000, 1000))
			if g.Chance(1, 4) {
				m.i *= 1 << 33
			}
			m.lit = fmt.Sprintf("%d", m.i)
		case 1, 5:
			m.s = c05Word(g)
			m.lit = fmt.Sprintf("%q", m.s)
		case 2:
			m.s = c05Word(g)
			m.lit = fmt.Sprintf("byte_slice(%q)", m.s)
		case 3:
			m.f = float64(g.Range(-4000, 4000)) / 8
			m.lit = fmt.Sprintf("float(%g)", m.f)
		case 4:
			m.i = int64(g.Intn(256))
			m.lit = fmt.Sprintf("byte(%d)", m.i)
		}
		if seen[m.lit] {
			continue
		}
		seen[m.lit] = true
		ms = append(ms, m)
	}
	if n = len(ms); n < 2 {
		return "", ""
	}
	var lits []string
	for _, m := range ms {
		lits = append(lits, m.lit)
	}
	var coll, listing string
	if kind == 5 {
		var ents []string
		for i, l := range lits {
			ents = append(ents, fmt.Sprintf("%s: %d", l, i))
		}
		coll = "{" + strings.Join(ents, ", ") + "}"
		listing = []string{"c.keys()", "func() { acc := []; for k, _ := range c { acc.append(k) }; return acc }()", "func() { acc := []; for _, p := range c.items() { acc.append(p[0]) }; return acc }()", "sorted(c.keys())"}[g.Intn(4)]
	} else {
		coll = "{" + strings.Join(lits, ", ") + "}"
		if g.Bool() {
			coll = "set([" + strings.Join(lits, ", ") + "])"
		}
		listing = []string{"list(c)", "func() { acc := []; for x, _ := range c { acc.append(x) }; return acc }()", "func() { acc := []; for x := range c { acc.append(x) }; return acc }()", "c.union(set([])).list()", "list(c.intersection(c))"}[g.Intn(5)]
	}
	src = "c := " + coll + "\n" + listing + "\n"
	res, err := risor.Eval(context.Background(), src)
	if err != nil {
		// a listing form this build does not accept says nothing about order
		if _, err2 := risor.Eval(context.Background(), "c := "+coll+"\nc\n"); err2 != nil {
			return src, "the collection itself failed: " + err2.Error()
		}
		return src, ""
	}
	l, ok := res.(*object.List)
	if !ok || len(l.Value()) != n {
		return src, fmt.Sprintf("listing gave %s, want a list of %d members", res.Inspect(), n)
	}
	sort.Slice(ms, func(a, b int) bool {
		switch kind {
		case 0, 4:
			return ms[a].i < ms[b].i
		case 3:
			return ms[a].f < ms[b].f
		}
		return ms[a].s < ms[b].s
	})
	for i, it := range l.Value() {
		good := false
		switch v := it.(type) {
		case *object.Int:
			good = kind == 0 && v.Value() == ms[i].i
		case *object.Byte:
			good = kind == 4 && int64(v.Value()) == ms[i].i
		case *object.String:
			good = (kind == 1 || kind == 5) && v.Value() == ms[i].s
		case *object.ByteSlice:
			good = kind == 2 && string(v.Value()) == ms[i].s
		case *object.Float:
			good = kind == 3 && v.Value() == ms[i].f
		}
		if !good {
			return src, fmt.Sprintf("position %d holds %s, the sorted order of the members puts %s there (listing: %s)", i, it.Inspect(), ms[i].lit, l.Inspect())
		}
	}
	return src, ""
}

func c05Word(g *sim.Stream) string {
	alpha := []rune("abAB09z~ _\u00e9")
	n := g.Range(0, 6)
	b := make([]rune, n)
	for i := range b {
		b[i] = alpha[g.Intn(len(alpha))]
	}
	return string(b)
}
