package checks

import (
	"context"
	"errors"
	"fmt"
	modOs "github.com/risor-io/risor/modules/os"
	"strings"
	"sync/atomic"
	"time"

	"github.com/risor-io/risor"
	"github.com/risor-io/risor/compiler"
	modFilepath "github.com/risor-io/risor/modules/filepath"
	"github.com/risor-io/risor/object"
	"github.com/risor-io/risor/parser"
	"github.com/risor-io/risor/verif/fw"
	"github.com/risor-io/risor/verif/sim"
	"github.com/risor-io/risor/verif/simos"
	"github.com/risor-io/risor/vm"
)

// ---------------------------------------------------------------------------
// G-block: non-terminating and blocking program shapes

type blockGen struct {
	g       *sim.Stream
	prelude strings.Builder
	n       int
	Defers  int
	Depth   int
	Shapes  []string
	Stdin   bool
}

func (bg *blockGen) fresh(prefix string) string {
	bg.n++
	return fmt.Sprintf("%s%d", prefix, bg.n)
}

// leaf returns statements that never terminate on their own (or block for a
// simulated hour at a time). allowSpawn limits thread-in-leaf nesting.
func (bg *blockGen) leaf(allowSpawn bool) string {
	n := 17
	if !allowSpawn {
		n = 16
	}
	k := bg.g.Intn(n)
	if allowSpawn && bg.g.Chance(1, 12) {
		// a wait cycle: the thread is handed its own thread object and waits
		// for itself, while this code waits for the thread; only the context
		// can end either wait
		c := bg.fresh("c")
		t := bg.fresh("t")
		fmt.Fprintf(&bg.prelude, "%s := chan(1)\n", c)
		bg.Shapes = append(bg.Shapes, "wait-cycle")
		return fmt.Sprintf("%s := spawn(func() { me := <-%s; me.wait(); for { tick() } }); %s <- %s; %s.wait()", t, c, c, t, t)
	}
	switch k {
	case 10:
		c := bg.fresh("c")
		fmt.Fprintf(&bg.prelude, "%s := chan()\n", c)
		bg.Shapes = append(bg.Shapes, "for-in-chan")
		return fmt.Sprintf("for v in %s { tick() }", c)
	case 11:
		bg.Shapes = append(bg.Shapes, "range-int")
		return "for { for i := range 2000000000 { tick() } }"
	case 12:
		bg.Shapes = append(bg.Shapes, "while-loop")
		x := bg.fresh("w")
		return fmt.Sprintf("%s := 0; for %s >= 0 { %s++ }", x, x, x)
	case 14:
		// builtins that drain a channel until it is closed
		c := bg.fresh("c")
		fmt.Fprintf(&bg.prelude, "%s := chan()\n", c)
		bg.Shapes = append(bg.Shapes, "drain-builtin")
		return fmt.Sprintf("%s(%s)", []string{"list", "set", "all", "list"}[bg.g.Intn(4)], c)
	case 15:
		// reads of a standard input nobody writes to: only the close that
		// follows the end of the context releases them
		bg.Shapes = append(bg.Shapes, "stdin-read")
		bg.Stdin = true
		return fmt.Sprintf("for { try(func() { %s }, func(e) { return 0 }); tick() }",
			[]string{"os.stdin.read()", "os.stdin.read_lines()", "for _, line := range os.stdin { tick() }", "list(os.stdin)", "sin := os.stdin; sin.read(); sin.read()"}[bg.g.Intn(5)])
	case 13:
		bg.Shapes = append(bg.Shapes, "sleep-short")
		return "for { time.sleep(0.05); tick() }"
	case 0:
		bg.Shapes = append(bg.Shapes, "busy")
		return "for { }"
	case 1:
		bg.Shapes = append(bg.Shapes, "tickloop")
		return "for { tick() }"
	case 2:
		bg.Shapes = append(bg.Shapes, "countloop")
		return "for i := 0; i >= 0; i++ { tick() }"
	case 3:
		d := 3 + bg.g.Intn(40)
		if d > bg.Depth {
			bg.Depth = d
		}
		bg.Shapes = append(bg.Shapes, "recursion")
		return fmt.Sprintf("for { rec(0, %d); tick() }", d)
	case 4:
		c := bg.fresh("c")
		fmt.Fprintf(&bg.prelude, "%s := chan()\n", c)
		bg.Shapes = append(bg.Shapes, "recv")
		return fmt.Sprintf("<-%s", c)
	case 5:
		c := bg.fresh("c")
		fmt.Fprintf(&bg.prelude, "%s := chan()\n", c)
		bg.Shapes = append(bg.Shapes, "recv-method")
		return fmt.Sprintf("%s.receive()", c)
	case 6:
		c := bg.fresh("c")
		fmt.Fprintf(&bg.prelude, "%s := chan(1)\n", c)
		bg.Shapes = append(bg.Shapes, "send-full")
		return fmt.Sprintf("%s <- 1; %s <- 2", c, c)
	case 7:
		bg.Shapes = append(bg.Shapes, "sleep")
		return "for { time.sleep(3600); tick() }"
	case 8:
		c := bg.fresh("c")
		fmt.Fprintf(&bg.prelude, "%s := chan()\n", c)
		bg.Shapes = append(bg.Shapes, "range-chan")
		return fmt.Sprintf("for _, v := range %s { tick() }", c)
	case 9:
		c := bg.fresh("c")
		fmt.Fprintf(&bg.prelude, "%s := chan()\n", c)
		bg.Shapes = append(bg.Shapes, "send-method")
		return fmt.Sprintf("%s.send(1)", c)
	default:
		t := bg.fresh("t")
		bg.Shapes = append(bg.Shapes, "wait")
		inner := bg.leaf(false)
		return fmt.Sprintf("%s := spawn(func() { %s }); %s.wait()", t, inner, t)
	}
}

// wrap places a leaf inside a callback-carrying construct.
func (bg *blockGen) wrap(leaf string) string {
	switch bg.g.Intn(12) {
	case 0, 1, 2:
		return leaf
	case 10:
		bg.Shapes = append(bg.Shapes, "in-call")
		return fmt.Sprintf("call(func(a) { %s }, 1)", leaf)
	case 11:
		// the callback runs inside filepath.walk_dir, which itself runs inside
		// the host-supplied (simulated) OS
		bg.Shapes = append(bg.Shapes, "in-walk-dir")
		return fmt.Sprintf("filepath.walk_dir(\"/data\", func(p, info, err) { %s })", leaf)
	case 3:
		bg.Shapes = append(bg.Shapes, "in-map")
		return fmt.Sprintf("[1, 2, 3].map(func(x) { %s })", leaf)
	case 4:
		bg.Shapes = append(bg.Shapes, "in-filter")
		return fmt.Sprintf("[1, 2, 3].filter(func(x) { %s; return true })", leaf)
	case 5:
		bg.Shapes = append(bg.Shapes, "in-each")
		return fmt.Sprintf("[1, 2, 3].each(func(x) { %s })", leaf)
	case 6:
		bg.Shapes = append(bg.Shapes, "in-sorted")
		return fmt.Sprintf("sorted([3, 1, 2], func(a, b) { %s; return a < b })", leaf)
	case 7:
		bg.Shapes = append(bg.Shapes, "in-try")
		return fmt.Sprintf("try(func() { %s })", leaf)
	case 8:
		bg.Shapes = append(bg.Shapes, "in-defer")
		bg.Defers++
		d := bg.fresh("d")
		fmt.Fprintf(&bg.prelude, "func %s() { defer func() { %s }(); return 1 }\n", d, leaf)
		return d + "()"
	default:
		bg.Shapes = append(bg.Shapes, "in-deep-call")
		f := bg.fresh("f")
		k := 1 + bg.g.Intn(30)
		if k > bg.Depth {
			bg.Depth = k
		}
		fmt.Fprintf(&bg.prelude, "func %s(k) { if k == 0 { %s } else { %s(k-1) } }\n", f, leaf, f)
		return fmt.Sprintf("%s(%d)", f, k)
	}
}

// goroutine builds a goroutine tree of the given remaining depth.
func (bg *blockGen) goroutine(depth int) string {
	var body strings.Builder
	if depth > 1 && bg.g.Chance(2, 3) {
		body.WriteString(bg.goroutine(depth - 1))
		body.WriteString("; ")
	}
	body.WriteString(bg.wrap(bg.leaf(true)))
	switch bg.g.Intn(5) {
	case 3:
		// the goroutine's target is a builtin that calls back into script code
		bg.Shapes = append(bg.Shapes, "go-builtin-target")
		switch bg.g.Intn(3) {
		case 0:
			return fmt.Sprintf("go gls.each(func(x) { %s })", body.String())
		case 1:
			return fmt.Sprintf("go sorted([3, 1, 2], func(a, b) { %s; return a < b })", body.String())
		default:
			return fmt.Sprintf("go try(func() { %s })", body.String())
		}
	case 4:
		bg.Shapes = append(bg.Shapes, "spawn-builtin-target")
		switch bg.g.Intn(3) {
		case 0:
			return fmt.Sprintf("spawn(gls.map, func(x) { %s })", body.String())
		case 1:
			return fmt.Sprintf("spawn(sorted, [3, 1, 2], func(a, b) { %s; return a < b })", body.String())
		default:
			return fmt.Sprintf("spawn(call, func(a) { %s }, 1)", body.String())
		}
	case 0:
		return fmt.Sprintf("go func() { %s }()", body.String())
	case 1:
		return fmt.Sprintf("spawn(func() { %s })", body.String())
	default:
		f := bg.fresh("g")
		fmt.Fprintf(&bg.prelude, "func %s() { %s }\n", f, body.String())
		return fmt.Sprintf("%s.spawn()", f)
	}
}

type blockProg struct {
	Src           string
	EntrySrc      string // variant: prelude+function, called through risor.Call
	EntrySrcTop   string // same, with the goroutines started by the module-level code (risor.Call runs that under the same context)
	MainReturns   bool   // main terminates by itself; only goroutines run on
	SharedSenders bool
	NGoroutines   int
	Defers        int
	Depth         int
	Shapes        []string
	Stdin         bool // the program reads the (blocking) standard input
}

func genBlock(g *sim.Stream) *blockProg {
	bg := &blockGen{g: g}
	bg.prelude.WriteString("func rec(n, d) { if n >= d { return 0 }; return rec(n+1, d) + 1 }\ngls := [1, 2, 3]\n")
	p := &blockProg{}
	var main strings.Builder
	p.NGoroutines = g.Intn(4)
	for i := 0; i < p.NGoroutines; i++ {
		main.WriteString(bg.goroutine(1 + g.Intn(3)))
		main.WriteString("\n")
	}
	if g.Chance(1, 5) {
		// several goroutines (and possibly main) send on ONE buffered channel
		// that a single receiver drains: senders compete for every free slot
		p.SharedSenders = true
		bg.Shapes = append(bg.Shapes, "shared-senders")
		fmt.Fprintf(&bg.prelude, "cs := chan(%d)\n", 1+g.Intn(2))
		for i := 0; i < 2+g.Intn(2); i++ {
			main.WriteString("go func() { for { cs <- 1 } }()\n")
		}
		main.WriteString("go func() { for { <-cs; tick() } }()\n")
		p.NGoroutines += 3
		if g.Bool() {
			main.WriteString("for { cs <- 2 }\n")
		}
	}
	if g.Chance(1, 5) {
		// a thread that has come and gone before anything blocks
		bg.Shapes = append(bg.Shapes, "finished-thread")
		main.WriteString([]string{"spawn(func() { return 1 }).wait()\n", "tdone := spawn(func(a) { tick(); return a }, 2)\ntdone.wait()\n", "[1, 2].each(func(x) { spawn(func() { tick() }).wait() })\n"}[g.Intn(3)])
	}
	p.MainReturns = p.NGoroutines > 0 && !p.SharedSenders && g.Chance(1, 6)
	if p.MainReturns {
		main.WriteString("tick()\n42\n")
	} else {
		main.WriteString(bg.wrap(bg.leaf(true)))
		// safety net: whatever the blocking construct does when it is
		// interrupted, the program as a whole never terminates by itself
		main.WriteString("\nfor { tick() }\n")
	}
	p.Src = bg.prelude.String() + main.String()
	p.EntrySrc = bg.prelude.String() + "func entry() {\n" + main.String() + "}\n"
	if p.NGoroutines > 0 && !p.SharedSenders && g.Bool() {
		// the goroutines are started by the module-level code (which risor.Call
		// runs first), only the rest is inside entry()
		lines := strings.SplitAfter(main.String(), "\n")
		var top, inner strings.Builder
		for _, l := range lines {
			if strings.HasPrefix(l, "go ") || strings.HasPrefix(l, "spawn(") || (len(l) > 0 && strings.Contains(l, ".spawn()") && !strings.Contains(l, ":=")) {
				top.WriteString(l)
			} else {
				inner.WriteString(l)
			}
		}
		if top.Len() > 0 {
			p.EntrySrcTop = bg.prelude.String() + top.String() + "func entry() {\n" + inner.String() + "}\n"
		}
	}
	p.Defers = bg.Defers
	p.Depth = bg.Depth
	p.Shapes = bg.Shapes
	p.Stdin = bg.Stdin
	return p
}

// ---------------------------------------------------------------------------

func init() {
	fw.Register(&fw.Scenario{
		Property: "C06",
		Name:     "cancel-everything",
		Run:      runC06,
		Level:    "exploration",
		Rule: "one run = one generated non-terminating/blocking program (busy loops, recursion, blocked channel ops, sleeps, waits, range over open channel, reads of a standard input nobody writes to; inside map/filter/each/sorted/try/defer/deep calls; goroutine trees to depth 3) " +
			"with one cancellation (explicit cancel at a tape-chosen scheduler step, or a deadline reached by clock-advance events / idle clock jumps) under one seeded schedule, then a fair schedule for the bounded-liveness oracle; " +
			"non-trivial = the cancel fired while at least one script task was alive; distinct = distinct hash of the (task, site, event) sequence",
		Real: []string{"risor.Eval / risor.Call / risor.EvalCode(WithVM) / vm.Clone+Call", "modules/filepath walk_dir, builtins call", "modules/os stdin + object.File (read, read_lines, iteration) over a blocking simulated stream", "vm (eval loop, start/stop, watcher goroutine, Clone, cloneCallAsync)", "object.Chan", "object.Thread", "modules/time sleep", "object.List map/filter/each", "builtins sorted/try/spawn", "context (real, on the bubble's fake clock)"},
		Stub: []string{"scheduler (sim)", "host builtin tick"},
		Assumptions: []string{
			"liveness bound B = (2000 + 16*(max call depth + defers + live tasks at the cancel instant)) scheduler steps per live task under round-robin scheduling; it is deliberately loose (the failure looked for is 'never')",
			"which select case a primitive takes once both ctx.Done and the channel are ready is the Go runtime's choice and is not asserted",
		},
	})
}

var c06Spin atomic.Int64

func ctxErrCarried(err error) bool {
	if err == nil {
		return false
	}
	if errors.Is(err, context.Canceled) || errors.Is(err, context.DeadlineExceeded) {
		return true
	}
	s := err.Error()
	return strings.Contains(s, "context canceled") || strings.Contains(s, "context deadline exceeded")
}

func runC06(rc *fw.RunCtx) {
	g := rc.Tape.Stream("gen")
	f := rc.Tape.Stream("fault")
	prog := genBlock(g)
	api := g.Intn(5) // 0,1: risor.Eval   2: risor.Call(entry)   3: risor.EvalCode of precompiled code on a reused VM   4: vm.Clone() + Call(entry)
	useDeadline := f.Chance(1, 3)
	cancelStep := 0
	switch f.Intn(4) {
	case 0:
		cancelStep = f.Intn(12)
	case 1:
		cancelStep = f.Intn(80)
	default:
		cancelStep = f.Intn(600)
	}
	watcherDelay := 0
	if f.Chance(1, 3) {
		watcherDelay = f.Intn(200)
	}

	sched := rc.Tape.Stream("sched")
	strat := sim.DrawStrategy(sched, 300)
	s := sim.New(sched, strat, 30000)
	h := &Host{}
	extra := map[string]any{"tick": h.Tick(), "filepath": modFilepath.Module()}
	opts := baseOpts(extra)
	sos := simos.New()
	sos.MkdirAll("/data/sub", 0o755)
	sos.WriteFile("/data/a.txt", []byte("a"), 0o644)
	sos.WriteFile("/data/sub/b.txt", []byte("b"), 0o644)
	if prog.Stdin {
		sos.SetBlockingStdin([]string{"", "one line\n", "a\nb"}[g.Intn(3)])
		extra["os"] = modOs.Module()
		opts = baseOpts(extra)
	}
	opts = append(opts, risor.WithOS(sos))

	var ctx context.Context
	var cancel context.CancelFunc
	var stepCancel func(at int)
	siteAimed := false
	var deadline time.Duration
	if useDeadline {
		deadline = time.Duration(1+f.Intn(5000)) * time.Millisecond
		ctx, cancel = context.WithTimeout(context.Background(), deadline)
		// CPU time passes in a few tape-chosen lumps
		nadv := 1 + f.Intn(4)
		for i := 0; i < nadv; i++ {
			step := f.Intn(cancelStep + 1)
			d := deadline/time.Duration(nadv) + time.Millisecond
			s.AtStep(step, "advance-clock", func() {
				rc.Hit("fault_clock_advance")
				s.Advance(d)
			})
		}
	} else {
		ctx, cancel = context.WithCancel(context.Background())
		if f.Chance(1, 4) {
			// a context that also carries a (far) deadline, cancelled explicitly
			// long before it
			rc.Hit("fault_far_deadline_context")
			ctx, cancel = context.WithTimeout(context.Background(), time.Duration(1+f.Intn(48))*time.Hour)
		}
		if f.Chance(1, 4) {
			siteAimed = true
			// aimed at a site (inside a primitive, at a task start, at the
			// watcher's fire point); the step-based cancel stays as a fallback
			// in case the site is never reached
			armSiteFault(s, f, "cancel", func() { rc.Hit("fault_cancel_at_site"); cancel() })
			cancelStep = 200 + f.Intn(400)
		}
		stepCancel = func(at int) {
			s.AtStep(at, "cancel", func() {
				rc.Hit("fault_cancel")
				cancel()
			})
		}
	}

	// phase P: a seeded serial prefix, then every task is released at once and
	// runs truly in parallel; the cancel lands after a short real-time spin and
	// the window is closed again. What is checked stays the same bounded-
	// liveness statement, evaluated under the baton scheduler.
	parallel := !useDeadline && !siteAimed && (f.Chance(1, 6) || (prog.SharedSenders && f.Chance(2, 3)))
	if stepCancel != nil {
		if parallel {
			stepCancel(1 << 20) // only a fallback: the parallel window cancels on its own
		} else {
			stepCancel(cancelStep)
		}
	}
	if parallel {
		rc.Hit("fault_parallel_window")
		spin := 200 + f.Intn(30000)
		if prog.SharedSenders {
			spin *= 8 // senders need time to collide on a free slot
		}
		s.AtStep(f.Intn(150), "release-parallel-window", func() {
			s.FreeRun()
			// a plain CPU spin (yielding here would queue this goroutine behind
			// the busy tasks for a scheduler quantum per yield)
			for i := 0; i < spin*20; i++ {
				c06Spin.Add(1)
			}
			rc.Hit("fault_cancel")
			cancel()
			// back to the baton: busy tasks park at their next instruction, so
			// the step-bounded liveness oracle below applies unchanged; tasks
			// stuck inside a primitive stay where they are
			s.EndFreeRun()
		})
	}
	out := &EvalOutcome{}
	warmStdin := prog.Stdin && g.Bool()
	warmCtx, warmCancel := context.WithCancel(context.Background())
	defer warmCancel()
	s.Go("main", "main", func() {
		guard(out, func() (object.Object, error) {
			defer warmCancel()
			if prog.Stdin && warmStdin {
				// an earlier evaluation of the same tenant (same globals, same
				// OS) looked at the standard input under a context of its own,
				// which is still alive
				rc.Hit("stdin_warmup")
				if _, err := risor.Eval(warmCtx, "sin0 := os.stdin\n1", opts...); err != nil {
					return nil, fmt.Errorf("harness: stdin warm-up: %w", err)
				}
			}
			if api == 2 {
				esrc := prog.EntrySrc
				if prog.EntrySrcTop != "" {
					esrc = prog.EntrySrcTop
				}
				ast, err := parser.Parse(context.Background(), esrc)
				if err != nil {
					return nil, fmt.Errorf("harness: parse: %w", err)
				}
				cfg := risor.NewConfig(opts...)
				code, err := compiler.Compile(ast, cfg.CompilerOpts()...)
				if err != nil {
					return nil, fmt.Errorf("harness: compile: %w", err)
				}
				return risor.Call(ctx, code, "entry", nil, opts...)
			}
			if api == 4 {
				// the host's "template VM" pattern: run once to define things, then
				// serve calls on clones, each with its own context
				ast, err := parser.Parse(context.Background(), prog.EntrySrc)
				if err != nil {
					return nil, fmt.Errorf("harness: parse: %w", err)
				}
				cfg := risor.NewConfig(opts...)
				code, err := compiler.Compile(ast, cfg.CompilerOpts()...)
				if err != nil {
					return nil, fmt.Errorf("harness: compile: %w", err)
				}
				machine := vm.New(code, cfg.VMOpts()...)
				if err := machine.Run(context.Background()); err != nil {
					return nil, fmt.Errorf("harness: template run: %w", err)
				}
				fnObj, err := machine.Get("entry")
				if err != nil {
					return nil, fmt.Errorf("harness: %w", err)
				}
				clone, err := machine.Clone()
				if err != nil {
					return nil, fmt.Errorf("harness: clone: %w", err)
				}
				return clone.Call(ctx, fnObj.(*object.Function), nil)
			}
			if api == 3 {
				// precompiled (so the parser's own context check is out of the way)
				// and on a VM that has already completed a run
				ast, err := parser.Parse(context.Background(), prog.Src)
				if err != nil {
					return nil, fmt.Errorf("harness: parse: %w", err)
				}
				cfg := risor.NewConfig(opts...)
				code, err := compiler.Compile(ast, cfg.CompilerOpts()...)
				if err != nil {
					return nil, fmt.Errorf("harness: compile: %w", err)
				}
				machine, err := vm.NewEmpty()
				if err != nil {
					return nil, fmt.Errorf("harness: %w", err)
				}
				ropts := append(append([]risor.Option{}, opts...), risor.WithVM(machine))
				if _, err := risor.Eval(context.Background(), "1 + 1", ropts...); err != nil {
					return nil, fmt.Errorf("harness: warm-up: %w", err)
				}
				return risor.EvalCode(ctx, code, ropts...)
			}
			return risor.Eval(ctx, prog.Src, opts...)
		})
	})

	cancelSeen := -1
	var simAtCancel, simAtReturn, simAllGone time.Duration = -1, -1, -1
	liveAtCancel := 0
	bound := 0
	var ticksAtReturn int64 = -1
	stepsAtReturn := -1
	s.OnQuiescent = func() error {
		if cancelSeen < 0 && ctx.Err() != nil {
			cancelSeen = s.Step
			simAtCancel = s.Now()
			s.Mark("cancel-observed")
			alive := aliveExcept(s)
			liveAtCancel = len(alive)
			for _, t := range alive {
				if t.Kind == "main" {
					rc.Hit("probe_cancel_main_at_" + t.Site())
				} else if t.Kind == "thread" {
					rc.Hit("probe_cancel_thread_at_" + t.Site())
				}
			}
			if out.Done {
				rc.Hit("probe_cancel_after_main_returned")
			}
			perTask := 2000 + 16*(prog.Depth+prog.Defers+liveAtCancel)
			bound = perTask * (liveAtCancel + 2)
			s.MaxSteps = s.Step + bound + watcherDelay
			if watcherDelay > 0 {
				// watcher delay: keep the (tape-chosen) schedule going for a
				// while before turning fair, so the watcher may be starved
				rc.Hit("fault_watcher_delay")
				s.AtStep(s.Step+watcherDelay, "fair", func() { s.SetStrategy(sim.Fair{}) })
			} else {
				s.SetStrategy(sim.Fair{})
			}
		}
		if out.Done && ticksAtReturn < 0 {
			ticksAtReturn = h.Ticks()
			stepsAtReturn = s.Step
			simAtReturn = s.Now()
		}
		if cancelSeen >= 0 && simAllGone < 0 && out.Done && len(aliveExcept(s)) == 0 {
			simAllGone = s.Now()
		}
		return nil
	}
	s.Until = func() bool {
		return cancelSeen >= 0 && out.Done && len(aliveExcept(s)) == 0
	}
	verdict := s.Run()
	alive := aliveExcept(s)
	ticksEnd := h.Ticks()
	returned := out.Done // before teardown, which makes everything return
	stuck := s.Shutdown(cancel)
	rc.AbsorbSim(s, strat.Name())
	rc.NonTrivial = cancelSeen >= 0 && liveAtCancel > 0
	rc.Count("stuck_after_shutdown", len(stuck))
	rc.Hit("verdict_" + verdict.String())
	if useDeadline {
		rc.Hit("fault_deadline")
	}
	rc.Hit(fmt.Sprintf("api_%d", api))
	for _, sh := range prog.Shapes {
		rc.Hit("shape_" + sh)
	}
	kind := "cancel"
	if useDeadline {
		kind = fmt.Sprintf("deadline=%v", deadline)
	}
	rc.Sample = map[string]any{
		"program":  prog.Src,
		"api":      []string{"risor.Eval", "risor.Eval", "risor.Call(entry)", "risor.EvalCode(precompiled, reused VM)", "vm.Clone()+Call(entry)"}[api],
		"fault":    fmt.Sprintf("%s at step %d (observed at %d), watcher delay %d", kind, cancelStep, cancelSeen, watcherDelay),
		"schedule": s.RenderTrace(40),
		"strategy": strat.Name(),
		"result":   out.String(),
	}

	if out.Panic != nil {
		rc.Violate("panic/api", "panic reached the API caller: %v", out.Panic)
		return
	}
	if out.Err != nil && strings.HasPrefix(out.Err.Error(), "harness:") {
		panic(out.Err) // generator bug: fail loudly
	}
	if cancelSeen < 0 {
		// the program ended before the cancellation was due; only legal for
		// MainReturns programs without live goroutines, which do not exist
		if out.Done && out.Err != nil && !out.IsAbort() && !prog.MainReturns {
			rc.Violate("precancel/error", "program failed before any cancellation: %v", out.Err)
			return
		}
		rc.Inconclusive = "cancel_never_observed"
		return
	}
	describe := func(ts []*sim.Task) string {
		var w []string
		for _, t := range ts {
			w = append(w, fmt.Sprintf("%d:%s@%s(steps=%d)", t.ID, t.Kind, t.Site(), t.Steps))
		}
		return strings.Join(w, " ")
	}
	locus := func(ts []*sim.Task) string {
		kinds := map[string]bool{}
		for _, t := range ts {
			kinds[t.Kind] = true
		}
		var ks []string
		for _, k := range []string{"main", "thread", "vm.watcher"} {
			if kinds[k] {
				ks = append(ks, k)
			}
		}
		return strings.Join(ks, "+")
	}
	if !returned {
		rc.Violate("liveness/eval-not-returned", "cancel observed at step %d; after %d further steps (bound %d, verdict %s) the call had not returned; alive: %s",
			cancelSeen, s.Step-cancelSeen, bound, verdict, describe(alive))
		return
	}
	if !prog.MainReturns {
		if out.Err == nil {
			rc.Violate("result/nil-error", "non-terminating program returned %s with a nil error after cancellation", out.String())
			return
		}
		if !ctxErrCarried(out.Err) {
			rc.Violate("result/foreign-error", "error does not carry the context's error: %v", out.Err)
			return
		}
	}
	if len(alive) > 0 {
		cls := "liveness/tasks-alive-after-return/" + locus(alive)
		if prog.MainReturns && cancelSeen > stepsAtReturn {
			cls = "liveness/goroutines-survive-late-cancel/" + locus(alive)
		}
		rc.Violate(cls, "the call returned (%s) but %d task(s) were still alive %d steps after the cancel (bound %d, verdict %s): %s; tick() moved from %d to %d after the return",
			out.String(), len(alive), s.Step-cancelSeen, bound, verdict, describe(alive), ticksAtReturn, ticksEnd)
		return
	}
	// "promptly" also in simulated time: nothing may sit out a sleep (or any
	// other timer) after the cancellation. One second is generous: a correct
	// implementation needs no simulated time at all after the cancel.
	if simAtReturn >= 0 && simAtCancel >= 0 && simAtReturn-simAtCancel > time.Second {
		rc.Violate("liveness/late-return-in-simulated-time", "the call returned %v of simulated time after the cancellation (it sat out a timer instead of reacting to the context)", simAtReturn-simAtCancel)
		return
	}
	if simAllGone >= 0 && simAtCancel >= 0 && simAllGone-simAtCancel > time.Second {
		rc.Violate("liveness/late-task-exit-in-simulated-time", "the last script task exited %v of simulated time after the cancellation", simAllGone-simAtCancel)
		return
	}
	rc.Count("steps_cancel_to_quiet", s.Step-cancelSeen)
}
