package checks

import (
	"context"
	"errors"
	"fmt"
	modOs "github.com/risor-io/risor/modules/os"
	ros "github.com/risor-io/risor/os"
	"github.com/risor-io/risor/verif/simos"
	"os"
	"sort"
	"strings"
	"sync"
	"sync/atomic"
	"testing/fstest"
	"time"

	"github.com/risor-io/risor"
	"github.com/risor-io/risor/compiler"
	"github.com/risor-io/risor/importer"
	"github.com/risor-io/risor/object"
	"github.com/risor-io/risor/parser"
	"github.com/risor-io/risor/verif/fw"
	"github.com/risor-io/risor/verif/sim"
	"github.com/risor-io/risor/vm"
)

// ---------------------------------------------------------------------------
// G-hist (VM reuse): histories of RunCode / Call invocations on one VM

var c07Lib = "func big() { return " + genStackOverflowSrc() + " }\n" + `
counter := 0
func add(a, b) { return a + b }
func loop(n) { x := 0; for i := 0; i < n; i++ { x += i * 3 }; return x }
func bump() { counter = counter + 1; return counter }
func fail(d) { if d == 0 { error("boom-call") }; return fail(d-1) + 1 }
func hp(k) { return hpanic(k) }
func deep(n) { return deep(n+1) + 1 }
func wide() { return [1,2,3,4,5,6,7,8,9,10,11,12,13,14,15,16,17,18,19,20].map(func(x) { return loop(x) }) }
func spin() { x := 0; for i := 0; i < 100000000; i++ { x++ }; return x }
func useDefer(n) { defer func() { counter = counter + 100 }(); return loop(n) }
func mkc(x) { f := func() { return x * 2 }; g := func() { return f() + 1 }; if x < 0 { error("neg-closure") }; return g() }
func spind() { defer func() { counter = counter + 1000 }(); x := 0; for i := 0; i < 100000000; i++ { x++ }; return x }
func spinc(x) { f := func() { return x }; for i := 0; i < 100000000; i++ { x = x + 0 }; return f() }
func imp(k) { import cmod; return cmod.value + cmod.pre + k }
func imp2(k) { import cmod2; return cmod2.answer + k }
func impslow(k) { x := 0; for i := 0; i < 6; i++ { x++ }; import cmod2; for i := 0; i < 100000000; i++ { x++ }; return cmod2.answer + x }
func imp4(k) { import cmod4; return cmod4.bump() + k }
func spimp(k) { t := spawn(func() { import cmod3; return cmod3.bump() }); return t.wait() + k }
func imp3(k) { import cmod3; return cmod3.bump() + k }
gx := 0
func setg(v) { gx = v; return gx }
func nestg() { inner := func() { deeper := func() { return gx }; return deeper() + 0 }; return inner() }
func who() { return os.getenv("WHO") }
func tryd() { return try(hdeny, func(e) { return "handled" }) }
func deny() { hdeny(); return "proceeded" }
gch := chan(4)
func rng(n) { for i := 0; i < n; i++ { w := i + 10; gch <- w }; out := []; for i, v := range gch { out.append([i, v]); if len(out) == n { break } }; return out }
func rdin() { return string(os.stdin.read()) }
worker := spawn(func() { return 7 })
wfirst := worker.wait()
func waitw(k) { return worker.wait() + wfirst - 7 + k }
`

const c07Module2 = "first := 1\nfunc helper(a) { return a * 2 }\nsecond := helper(first)\nanswer := 40 + second\n"

// c07LibTop4 is prepended to the library in some of its runs: the library then
// imports cmod4 itself and publishes one of the module's functions, which the
// host keeps.
const c07LibTop4 = "import cmod4\nmodfn := cmod4.bump\n"

const c07Module3 = "n := 0\nfunc bump() { n = n + 1; return n }\n"

const c07Module = "pre := 1\nmaybe_fail()\nvalue := 3\n"

type invKind int

const (
	kNormal invKind = iota
	kRuntimeError
	kHostPanic
	kFrameOverflow
	kStackOverflow
	kCancelled
	kDeadline
	kStaleCall    // Call of a function that belongs to code an intervening RunCode has replaced
	kPreCancelled // entered with a context that is already cancelled (a short payload may still complete)
)

var kindNames = []string{"normal", "runtime-error", "host-panic", "frame-overflow", "stack-overflow", "cancelled", "deadline", "stale-function-call", "pre-cancelled"}

type invocation struct {
	API        string // "RunCode" | "Call"
	Kind       invKind
	Src        string // RunCode payload
	Fn         string // Call payload
	Args       []int
	IsLib      bool   // RunCode of the library (state-carrying)
	FailImport bool   // the module imported by this call fails in its body
	Background bool   // runs under context.Background(), which can never be cancelled
	CtxOS      bool   // the invocation's context carries an OS of its own (WHO=req<k>)
	NoOpts     bool   // RunCode without options: the VM keeps what an earlier RunCode configured
	ReqTag     string // RunCode with a per-invocation value for the global `request`
	StaleMod   bool   // stale call of a kept MODULE function (not of a library function)
	StalePrev  bool   // the kept function belongs to the library before the live one
	Stateful   bool   // a Call that changes globals and must be replayed on the model
	OwnDelta   int    // for cancelled/deadline: steps after start at which the fault lands
	// stale cancels: earlier invocation index -> delta steps after this
	// invocation's start
	Stale map[int]int
}

func (iv *invocation) String() string {
	if iv.API == "Run" && !iv.IsLib {
		return "Run (nothing left to execute) [normal]"
	}
	if iv.API == "Call" {
		return fmt.Sprintf("Call %s%v [%s]", iv.Fn, iv.Args, kindNames[iv.Kind])
	}
	s := strings.ReplaceAll(strings.TrimSpace(iv.Src), "\n", "; ")
	if iv.IsLib {
		s = "<library>; " + s[strings.LastIndex(s, ";")+1:]
	}
	if len(s) > 90 {
		s = s[:90] + "…"
	}
	return fmt.Sprintf("%s `%s` [%s]", iv.API, s, kindNames[iv.Kind])
}

func genStackOverflowSrc() string {
	var b strings.Builder
	b.WriteString("[")
	for i := 0; i < 1100; i++ {
		if i > 0 {
			b.WriteString(",")
		}
		fmt.Fprintf(&b, "%d", i)
	}
	b.WriteString("]")
	return b.String()
}

func genHistory(g *sim.Stream, f *sim.Stream) []*invocation {
	n := g.Range(1, 6)
	var hist []*invocation
	libLive := false
	libSeen := false
	libCount := 0 // successful-by-construction library RunCodes so far
	// family "main": the VM is created with the library as its main program
	// (vm.New); invocation 0 is Run, later ones are Calls of its functions and
	// further Runs (which have nothing left to execute)
	mainFamily := g.Chance(1, 3)
	followImport := false
	sawRunCode := false
	mod3Loaded := false // the VM itself (not only a clone) has imported cmod3
	mod4Loaded := false // ... cmod4 (by the library's own top-level import, or through imp4)
	hadTop4 := false    // some earlier library published a function of cmod4
	// theme: a global written through one function and read through functions
	// nested in another, with repeated Runs in between
	themeNested := mainFamily && g.Chance(1, 4)
	if themeNested && n < 4 {
		n = 4
	}
	themeDefer := mainFamily && !themeNested && g.Chance(1, 10)
	if themeDefer && n < 5 {
		n = 5
	}
	themeRequest := !mainFamily && g.Chance(1, 20)
	themeStale4 := !mainFamily && !themeRequest && g.Chance(1, 15)
	if themeStale4 && n < 5 {
		n = 5
	}
	for k := 0; k < n; k++ {
		iv := &invocation{Stale: map[int]int{}}
		libTop4 := false // this invocation runs the library variant that imports cmod4 itself
		if themeStale4 && k < 4 {
			// theme: a library that publishes a function of an imported module;
			// another library; the host calls the function it kept; the new
			// library imports the same module and uses it
			switch k {
			case 0, 1:
				iv.API, iv.Kind, iv.IsLib = "RunCode", kNormal, true
				iv.Src = c07Lib + fmt.Sprintf("\n%d\n", 1000+g.Intn(1000))
				if k == 0 {
					iv.Src = c07LibTop4 + iv.Src
				}
				sawRunCode, libLive, libSeen = true, true, true
				libCount++
				mod3Loaded, mod4Loaded, hadTop4 = false, k == 0, true
			case 2:
				iv.API, iv.Kind, iv.Fn, iv.Args = "Call", kStaleCall, "add", []int{1, 2}
				iv.StalePrev, iv.StaleMod = true, true
			default:
				iv.API, iv.Kind = "Call", kNormal
				iv.Fn, iv.Args, iv.Stateful = "imp4", []int{g.Intn(9)}, true
				mod4Loaded = true
			}
			hist = append(hist, iv)
			continue
		}
		if themeDefer && k >= 1 && k <= 4 {
			// theme: an invocation is cancelled inside a function that has a
			// deferred call pending; plain calls and counter reads follow
			iv.API = "Call"
			switch k {
			case 1:
				iv.Kind, iv.Fn = kCancelled, "spind"
				iv.OwnDelta = 1 + f.Intn(300)
			case 2:
				iv.Kind, iv.Fn, iv.Args = kNormal, "add", []int{g.Intn(50), g.Intn(50)}
			default:
				iv.Kind, iv.Fn, iv.Stateful = kNormal, "bump", true
			}
			hist = append(hist, iv)
			continue
		}
		if themeRequest && g.Chance(2, 3) {
			// theme: one script reading the global `request`, run again and again,
			// with and without a value of its own for this invocation
			iv.API, iv.Kind, iv.Src = "RunCode", kNormal, "[request, len(request)]"
			if g.Bool() {
				iv.ReqTag = fmt.Sprintf("req-%d-%d", k, g.Intn(1000))
			}
			sawRunCode, libLive = true, false
			mod3Loaded, mod4Loaded = false, false
			hist = append(hist, iv)
			continue
		}
		if followImport && libLive {
			// an invocation whose import was interrupted is followed by one that
			// imports the same module and uses it: whatever the interrupted
			// import left behind (in the VM or in the importer the VM was given)
			// is then on the path of a later, undisturbed invocation
			followImport = false
			iv.API, iv.Kind, iv.Fn, iv.Args, iv.Stateful = "Call", kNormal, "imp2", []int{g.Intn(9)}, true
			hist = append(hist, iv)
			continue
		}
		if mainFamily && k == 0 {
			iv.API, iv.Kind, iv.IsLib = "Run", kNormal, true
			iv.Src = c07Lib + fmt.Sprintf("\n%d\n", 3000+g.Intn(1000))
			if g.Bool() {
				iv.Src = c07LibTop4 + iv.Src
				mod4Loaded, hadTop4 = true, true
			}
			hist = append(hist, iv)
			libLive, libSeen = true, true
			continue
		}
		if mainFamily && !(themeNested && k == 1) && (g.Chance(1, 6) || (themeNested && g.Chance(1, 3))) {
			iv.API, iv.Kind = "Run", kNormal
			hist = append(hist, iv)
			continue
		}
		if themeNested && k > 0 && (k == 1 || g.Chance(3, 4)) {
			iv.API, iv.Kind = "Call", kNormal
			if k > 1 && g.Bool() {
				iv.Fn, iv.Args, iv.Stateful = "setg", []int{g.Range(1, 99)}, true
			} else {
				// (always first: the nested functions get loaded before any later Run)
				iv.Fn = "nestg"
			}
			hist = append(hist, iv)
			continue
		}
		kind := invKind(0)
		switch g.Intn(10) {
		case 0, 1, 2, 3:
			kind = kNormal
		case 4:
			kind = kRuntimeError
		case 5:
			kind = kHostPanic
		case 6:
			if g.Bool() {
				kind = kFrameOverflow
			} else {
				kind = kStackOverflow
			}
		case 7, 8:
			kind = kCancelled
		default:
			kind = kDeadline
		}
		iv.Kind = kind
		useCall := libLive && (mainFamily || g.Chance(3, 5))
		if !mainFamily && ((libSeen && !libLive && g.Chance(1, 4)) || (libLive && libCount >= 2 && g.Chance(1, 8))) {
			// questionable but possible usage: the host kept a function of code
			// that a later RunCode replaced. Whatever it returns (today: a
			// recovered nil-pointer panic), the invocations after it must be
			// unaffected.
			iv.API, iv.Kind, iv.Fn, iv.Args = "Call", kStaleCall, "add", []int{1, 2}
			iv.StalePrev = libLive // a library is live: the function is one of the library BEFORE it
			// the kept function may be one of an imported module (cmod4): only if
			// some earlier library published one and the VM does not have cmod4
			// loaded right now (the importer hands every generation the same
			// compiled code, so the old function object would simply work)
			iv.StaleMod = hadTop4 && !mod4Loaded && g.Bool()
			hist = append(hist, iv)
			continue
		}
		if useCall {
			iv.API = "Call"
			switch kind {
			case kNormal:
				switch g.Intn(19) {
				case 16:
					// the host's one "denied" error object, handled here ...
					iv.Fn = "tryd"
				case 17:
					// ... and not handled here: the call must fail every time
					iv.Fn = "deny"
				case 18:
					// a channel global filled and ranged over with an index, again
					// and again
					iv.Fn, iv.Args = "rng", []int{g.Range(1, 4)}
				case 15:
					// standard input of the OS that came with this invocation's context
					iv.Fn, iv.CtxOS = "rdin", true
				case 12:
					// a thread spawned by this invocation imports a module the VM
					// itself has not imported (the clone's table is its own)
					// (stateful once the VM itself has imported the module: the clone
					// then shares it, by design)
					iv.Fn, iv.Args, iv.Stateful = "spimp", []int{g.Intn(9)}, mod3Loaded
				case 14:
					// (cmod4 is imported by the library itself; its counter keeps counting)
					iv.Fn, iv.Args, iv.Stateful = "imp4", []int{g.Intn(9)}, true
					mod4Loaded = true
				case 13:
					// stateful: the module stays imported, its counter keeps counting
					iv.Fn, iv.Args, iv.Stateful = "imp3", []int{g.Intn(9)}, true
					mod3Loaded = true
				case 9:
					// a global written through one function and read by a function
					// nested two levels deep
					iv.Fn, iv.Args, iv.Stateful = "setg", []int{g.Range(1, 99)}, true
				case 10:
					iv.Fn = "nestg"
				case 11:
					// which OS does the invocation see: its context's or the VM's
					iv.Fn = "who"
					iv.CtxOS = g.Bool()
				case 0:
					iv.Fn, iv.Args = "add", []int{g.Intn(100), g.Intn(100)}
				case 1:
					iv.Fn, iv.Args = "loop", []int{g.Range(1, 150)}
				case 2:
					iv.Fn, iv.Stateful = "bump", true
				case 3:
					iv.Fn = "wide"
				case 4:
					iv.Fn, iv.Args, iv.Stateful = "useDefer", []int{g.Range(1, 60)}, true
				case 5:
					iv.Fn, iv.Args = "mkc", []int{g.Range(0, 50)}
				case 6:
					// a successful import is state the VM keeps (the module is cached)
					iv.Fn, iv.Args, iv.Stateful = "imp", []int{g.Intn(9)}, true
				case 7:
					iv.Fn, iv.Args, iv.Stateful = "imp2", []int{g.Intn(9)}, true
				default:
					// a thread spawned (and finished) by the invocation that loaded the
					// library is waited for by a later invocation
					iv.Fn, iv.Args = "waitw", []int{g.Intn(9)}
				}
			case kRuntimeError:
				switch g.Intn(3) {
				case 0:
					iv.Fn, iv.Args = "fail", []int{g.Intn(20)}
				case 1:
					iv.Fn, iv.Args = "mkc", []int{-1 - g.Intn(5)}
				default:
					// the imported module's body fails half-way
					iv.Fn, iv.Args, iv.FailImport = "imp", []int{g.Intn(9)}, true
				}
			case kHostPanic:
				iv.Fn, iv.Args = "hp", []int{g.Intn(3)}
			case kFrameOverflow:
				iv.Fn, iv.Args = "deep", []int{0}
			case kStackOverflow:
				iv.Fn = "big"
			default:
				switch g.Intn(3) {
				case 0:
					iv.Fn = "spin"
				case 1:
					iv.Fn, iv.Args = "spinc", []int{g.Intn(9)}
				default:
					// the cancellation may land before, inside or after the import
					iv.Fn, iv.Args = "impslow", []int{g.Intn(9)}
					if g.Chance(2, 3) {
						followImport = true
						if k == n-1 {
							n++
						}
					}
				}
			}
		} else {
			iv.API = "RunCode"
			switch kind {
			case kNormal:
				if g.Chance(1, 8) {
					// risor.Call: the library is evaluated, then one of its functions is
					// called, in one API call on the reused VM
					iv.API, iv.IsLib = "RisorCall", true
					iv.Src = c07Lib + fmt.Sprintf("\n%d\n", 1000+g.Intn(20))
					switch g.Intn(3) {
					case 0:
						iv.Fn, iv.Args = "add", []int{g.Intn(50), g.Intn(50)}
					case 1:
						iv.Fn = "bump"
					default:
						iv.Fn, iv.Args = "loop", []int{g.Range(1, 40)}
					}
				} else if g.Chance(1, 2) {
					iv.IsLib = true
					iv.Src = c07Lib + fmt.Sprintf("\n%d\n", 1000+g.Intn(1000))
					if g.Bool() {
						iv.Src = c07LibTop4 + iv.Src
						libTop4 = true
					}
				} else if g.Chance(1, 7) {
					// a Go container supplied by the host, changed by the script
					iv.Src = "items.append(4)\nitems[0] = items[0] + 10\n[len(items), items[0]]"
				} else if g.Chance(1, 6) {
					// the host passes this invocation's own value for a global
					iv.Src = "[request, len(request)]"
					if g.Chance(2, 3) {
						iv.ReqTag = fmt.Sprintf("req-%d-%d", k, g.Intn(1000))
					} // (else: the configuration's own value)
				} else if g.Chance(1, 5) {
					// every run of this script imports the module afresh
					iv.Src = "import cmod3\n[cmod3.bump(), cmod3.bump()]"
				} else if g.Chance(1, 4) {
					// a module the host supplied as a global is importable in every run
					iv.Src = "import os\nos.getenv(\"WHO\")"
				} else if g.Chance(1, 3) {
					// one fixed script that rebinds a host-supplied global: every run
					// of it starts from the host's value
					iv.Src = "hits = hits + 1\nseen := [hits, hits * 2]\nseen"
				} else {
					a, b := g.Range(1, 120), g.Range(1, 9)
					iv.Src = fmt.Sprintf("x := 0\nfor i := 0; i < %d; i++ { x += i * %d }\ny := [x, %d]\ny", a, b, b)
				}
			case kRuntimeError:
				iv.Src = fmt.Sprintf("func f(k) { if k == 0 { error(\"boom-%d\") }; return f(k-1) + 1 }\nf(%d)", g.Intn(50), g.Intn(20))
			case kHostPanic:
				iv.Src = fmt.Sprintf("z := 1\nhpanic(%d)\nz", g.Intn(3))
			case kFrameOverflow:
				iv.Src = "func deep(n) { return deep(n+1) + 1 }\ndeep(0)"
			case kStackOverflow:
				iv.Src = genStackOverflowSrc()
			default:
				iv.Src = "x := 0\nfor i := 0; i < 100000000; i++ { x++ }\nx"
			}
		}
		if kind == kCancelled || kind == kDeadline {
			iv.OwnDelta = 1 + f.Intn(300)
		}
		if kind == kNormal && !iv.Stateful && !iv.IsLib && iv.Fn != "deny" && iv.Fn != "rng" && g.Chance(1, 8) {
			// the same payload, entered with a context that is already cancelled
			// (not the payloads whose ordinary outcome is an error, or that
			// leave values behind in a channel when they are cut short)
			iv.Kind = kPreCancelled
		}
		if kind == kNormal && !iv.CtxOS && g.Chance(1, 8) {
			iv.CtxOS = true
		}
		// stale cancels of earlier contexts, landing during this invocation
		for j := 0; j < k; j++ {
			if f.Chance(1, 3) {
				switch f.Intn(3) {
				case 0:
					iv.Stale[j] = 0 // between invocations
				case 1:
					iv.Stale[j] = 1 + f.Intn(40)
				default:
					iv.Stale[j] = 1 + f.Intn(600)
				}
			}
		}
		// (not for the script that reads `request`: without options it would see
		// whatever value the last configured run had left, by design)
		if iv.API == "RunCode" && sawRunCode && iv.ReqTag == "" && !strings.Contains(iv.Src, "request") && g.Chance(1, 3) {
			iv.NoOpts = true
		}
		if iv.API == "RunCode" || iv.API == "RisorCall" {
			sawRunCode = true
			mod3Loaded = false
			mod4Loaded = libTop4 && iv.Kind == kNormal
			if mod4Loaded {
				hadTop4 = true
			}
		}
		hist = append(hist, iv)
		if iv.API == "RunCode" || iv.API == "RisorCall" {
			libLive = iv.IsLib && iv.Kind == kNormal
			if libLive {
				libSeen = true
				libCount++
			}
		}
		if iv.Kind != kCancelled && iv.Kind != kDeadline && iv.Kind != kPreCancelled && g.Chance(1, 4) {
			iv.Background = true
		}
	}
	return hist
}

// ---------------------------------------------------------------------------

func hostPanicBuiltin() *object.Builtin {
	return object.NewBuiltin("hpanic", func(ctx context.Context, args ...object.Object) object.Object {
		k := int64(0)
		if len(args) > 0 {
			if i, ok := args[0].(*object.Int); ok {
				k = i.Value()
			}
		}
		switch k {
		case 0:
			panic("host panic string")
		case 1:
			panic(errors.New("host panic error"))
		default:
			var m map[string]int
			m["x"] = 1 // runtime error
		}
		return object.Nil
	})
}

type invResult struct {
	Val string
	Err string
	Raw error
}

func (r invResult) String() string {
	if r.Err != "" {
		return "error(" + r.Err + ")"
	}
	return r.Val
}

func inspectOrNil(o object.Object) string {
	if o == nil {
		return "<nil object>"
	}
	return safeInspect(o)
}

func compileSrc(src string, cfg *risor.Config) *compiler.Code {
	ast, err := parser.Parse(context.Background(), src)
	if err != nil {
		panic(fmt.Errorf("harness: parse %q: %w", src, err))
	}
	code, err := compiler.Compile(ast, cfg.CompilerOpts()...)
	if err != nil {
		panic(fmt.Errorf("harness: compile: %w", err))
	}
	return code
}

// runInv performs one invocation on machine m.
// c07Options remembers the option list each configuration was built from
// (risor.Call takes options, not a Config).
var c07Options sync.Map

func c07OptionsOf(cfg *risor.Config) []risor.Option {
	if v, ok := c07Options.Load(cfg); ok {
		return append([]risor.Option{}, v.([]risor.Option)...)
	}
	return nil
}

// withOpts is the invocation as a fresh VM must receive it: with its options.
func withOpts(iv *invocation) *invocation {
	c := *iv
	c.NoOpts = false
	return &c
}

func runInv(ctx context.Context, m *vm.VirtualMachine, cfg *risor.Config, failImport *atomic.Bool, iv *invocation, code *compiler.Code) (res invResult) {
	failImport.Store(iv.FailImport)
	defer func() {
		if r := recover(); r != nil {
			res = invResult{Err: fmt.Sprintf("PANIC-ESCAPED: %v", r)}
		}
	}()
	if iv.API == "Run" {
		if err := m.Run(ctx); err != nil {
			return invResult{Err: err.Error(), Raw: err}
		}
		tos, ok := m.TOS()
		if !ok {
			return invResult{Val: "<no TOS>"}
		}
		return invResult{Val: inspectOrNil(tos)}
	}
	if iv.API == "RisorCall" {
		// risor.Call on the reused VM: evaluate the program, then call one of its functions
		var args []object.Object
		for _, a := range iv.Args {
			args = append(args, object.NewInt(int64(a)))
		}
		v, err := risor.Call(ctx, code, iv.Fn, args, append(c07OptionsOf(cfg), risor.WithVM(m))...)
		if err != nil {
			return invResult{Err: err.Error(), Raw: err}
		}
		return invResult{Val: inspectOrNil(v)}
	}
	if iv.API == "RunCode" {
		opts := cfg.VMOpts()
		if iv.ReqTag != "" {
			opts = append(opts, vm.WithGlobals(map[string]any{"request": iv.ReqTag}))
		}
		if iv.NoOpts {
			opts = nil
		}
		if err := m.RunCode(ctx, code, opts...); err != nil {
			return invResult{Err: err.Error(), Raw: err}
		}
		tos, ok := m.TOS()
		if !ok {
			return invResult{Val: "<no TOS>"}
		}
		return invResult{Val: inspectOrNil(tos)}
	}
	obj, err := m.Get(iv.Fn)
	if err != nil {
		return invResult{Err: "Get: " + err.Error(), Raw: err}
	}
	fn, ok := obj.(*object.Function)
	if !ok {
		return invResult{Err: "Get: not a function: " + inspectOrNil(obj)}
	}
	var args []object.Object
	for _, a := range iv.Args {
		args = append(args, object.NewInt(int64(a)))
	}
	v, err := m.Call(ctx, fn, args)
	if err != nil {
		return invResult{Err: err.Error(), Raw: err}
	}
	return invResult{Val: inspectOrNil(v)}
}

func init() {
	fw.Register(&fw.Scenario{
		Property: "C07",
		Name:     "vm-reuse-histories",
		Run:      runC07,
		Level:    "exploration",
		Rule: "one run = one history of 1..7 invocations in one of two families (vm.NewEmpty + RunCode/Call; vm.New(main) + Run/Call/repeated Run): normal, runtime error at depth d, host-builtin panic, frame/stack overflow, cancelled or deadline mid-run, " +
			"a Call of a function whose code a later RunCode replaced, invocations under context.Background(); payloads with closures, defers, imports from FSImporter or LocalImporter (failing module body, cancel aimed at the import park, follow-up import of the same module), threads started by one invocation and waited for by a later one; all on ONE VM, each with its own context, " +
			"with stale cancels of earlier contexts placed between and inside later invocations, under one seeded schedule (the stale watcher is a task, so the instant it fires is a scheduling decision); " +
			"every invocation is compared with the same invocation on a fresh VM fed only the state-carrying predecessors; non-trivial = at least one invocation ran after a failed/cancelled one or while a stale cancel was pending; distinct = distinct trace hash",
		Real: []string{"vm.VirtualMachine (New, NewEmpty, Run, RunCode, Call, Get, TOS, GlobalNames, start/stop, watcher, importModule)", "importer.FSImporter / importer.LocalImporter", "compiler", "parser", "risor.Config", "context"},
		Stub: []string{"scheduler (sim)", "host builtin hpanic", "reference = the same real VM code run fresh, outside the scheduler"},
		Assumptions: []string{
			"failing payloads fail before touching state that later invocations read; Call uses only functions of the most recent successful RunCode",
			"error texts are compared verbatim (they contain no addresses in these payloads)",
		},
	})
}

var c07DirOnce sync.Once
var c07Dir string

// c07ModuleDir writes the two modules to a scratch directory once per process.
func c07ModuleDir() string {
	c07DirOnce.Do(func() {
		base := os.Getenv("VERIF_OUT")
		if base == "" {
			base = os.TempDir()
		} else {
			base = dirOf(base)
		}
		d, err := os.MkdirTemp(base, "c07mods-")
		if err != nil {
			panic("harness: " + err.Error())
		}
		os.WriteFile(d+"/cmod.risor", []byte(c07Module), 0o644)
		os.WriteFile(d+"/cmod2.risor", []byte(c07Module2), 0o644)
		os.WriteFile(d+"/cmod3.risor", []byte(c07Module3), 0o644)
		os.WriteFile(d+"/cmod4.risor", []byte(c07Module3), 0o644)
		c07Dir = d
	})
	return c07Dir
}

// c07ReqOS is the OS carried by the context of invocation k.
func c07ReqOS(k int) *simos.SimOS {
	o := simos.New()
	o.Setenv("WHO", fmt.Sprintf("req%d", k))
	o.SetStdin(fmt.Sprintf("stdin-of-req%d", k))
	return o
}

func runC07(rc *fw.RunCtx) {
	g := rc.Tape.Stream("gen")
	f := rc.Tape.Stream("fault")
	hist := genHistory(g, f)
	sched := rc.Tape.Stream("sched")
	strat := sim.DrawStrategy(sched, 400)
	s := sim.New(sched, strat, 60000)

	var failImport atomic.Bool
	extra := map[string]any{"hpanic": hostPanicBuiltin(), "maybe_fail": object.NewBuiltin("maybe_fail", func(ctx context.Context, args ...object.Object) object.Object {
		if failImport.Load() {
			return object.Errorf("module body failed")
		}
		return object.Nil
	})}
	extra["os"] = modOs.Module()
	extra["hits"] = 0                                                                                                                              // a data global supplied by the host, which scripts rebind
	extra["request"] = "req-none"                                                                                                                  // replaced per invocation by some RunCodes
	extra["hdeny"] = object.NewBuiltin("hdeny", func(ctx context.Context, args ...object.Object) object.Object { return object.Errorf("denied") }) // replaced per configuration
	extra["items"] = []any{1, 2, 3}                                                                                                                // a Go container: every RunCode converts it afresh
	var gnames []string
	for k := range baseGlobals(extra) {
		gnames = append(gnames, k)
	}
	sort.Strings(gnames)
	mfs := fstest.MapFS{"cmod.risor": &fstest.MapFile{Data: []byte(c07Module)}, "cmod2.risor": &fstest.MapFile{Data: []byte(c07Module2)}, "cmod3.risor": &fstest.MapFile{Data: []byte(c07Module3)}, "cmod4.risor": &fstest.MapFile{Data: []byte(c07Module3)}}
	// modules come from FSImporter over an in-memory tree or from LocalImporter
	// over a scratch directory
	useLocal := g.Chance(1, 3)
	localDir := ""
	if useLocal {
		localDir = c07ModuleDir()
		rc.Hit("importer_local")
	} else {
		rc.Hit("importer_fs")
	}
	// (the option lists are dropped again when the run ends: a worker process
	// executes tens of thousands of runs)
	var madeCfgs []*risor.Config
	defer func() {
		for _, c := range madeCfgs {
			c07Options.Delete(c)
		}
	}()
	newCfg := func() *risor.Config {
		var imp importer.Importer
		if useLocal {
			imp = importer.NewLocalImporter(importer.LocalImporterOptions{GlobalNames: gnames, SourceDir: localDir, Extensions: []string{".risor"}})
		} else {
			imp = importer.NewFSImporter(importer.FSImporterOptions{GlobalNames: gnames, SourceFS: mfs, Extensions: []string{".risor"}})
		}
		vmOS := simos.New()
		vmOS.Setenv("WHO", "vm")
		// the host's "access denied" answer is one error object, made once
		// per configuration and returned every time
		denied := object.Errorf("denied")
		ex := map[string]any{}
		for k, v := range extra {
			ex[k] = v
		}
		ex["hdeny"] = object.NewBuiltin("hdeny", func(ctx context.Context, args ...object.Object) object.Object { return denied })
		ropts := append(baseOpts(ex), risor.WithImporter(imp), risor.WithOS(vmOS))
		c := risor.NewConfig(ropts...)
		c07Options.Store(c, ropts)
		madeCfgs = append(madeCfgs, c)
		return c
	}
	cfg := newCfg() // system under test

	// compile payloads once (shared read-only between the VM under test and the models)
	// (a host that compiles a script once and runs it many times hands the VM
	// the same code object again and again: identical sources share one)
	codes := make([]*compiler.Code, len(hist))
	bySrc := map[string]*compiler.Code{}
	for i, iv := range hist {
		if iv.API == "RunCode" || iv.API == "RisorCall" || (iv.API == "Run" && iv.IsLib) {
			if c, ok := bySrc[iv.Src]; ok {
				codes[i] = c
				rc.Hit("same_code_object_run_again")
				continue
			}
			codes[i] = compileSrc(iv.Src, cfg)
			bySrc[iv.Src] = codes[i]
		}
	}
	mainFamily := hist[0].API == "Run"
	newMachine := func(c *risor.Config) *vm.VirtualMachine {
		if mainFamily {
			return vm.New(codes[0], c.VMOpts()...)
		}
		m, err := vm.NewEmpty()
		if err != nil {
			panic(err)
		}
		return m
	}

	// ---- reference: fresh VM per invocation, fed only state-carrying predecessors
	expected := make([]invResult, len(hist))
	{
		libIdx := -1
		var stateful []int
		for k, iv := range hist {
			if iv.Kind == kCancelled || iv.Kind == kDeadline {
				expected[k] = invResult{Err: "<context error>"}
			} else if iv.Kind == kStaleCall {
				expected[k] = invResult{Err: "<not compared>"}
			} else {
				// every reference run gets a configuration (globals map, importer,
				// OS) of its own: nothing one reference run does to it can reach
				// the next
				cfgModel := newCfg()
				m := newMachine(cfgModel)
				bg := context.Background()
				if iv.API == "Call" || (iv.API == "Run" && !iv.IsLib) {
					r := runInv(bg, m, cfgModel, &failImport, withOpts(hist[libIdx]), codes[libIdx])
					if r.Err != "" {
						panic("harness: model library failed: " + r.Err)
					}
					for _, j := range stateful {
						runInv(bg, m, cfgModel, &failImport, withOpts(hist[j]), nil)
					}
				}
				ctxK := bg
				if iv.CtxOS {
					ctxK = ros.WithOS(bg, c07ReqOS(k))
				}
				expected[k] = runInv(ctxK, m, cfgModel, &failImport, withOpts(iv), codes[k])
			}
			if iv.API == "RunCode" || iv.API == "RisorCall" || (iv.API == "Run" && iv.IsLib) {
				if iv.IsLib && iv.Kind == kNormal {
					libIdx = k
				} else {
					libIdx = -1
				}
				stateful = nil
			} else if iv.Stateful && iv.Kind == kNormal {
				stateful = append(stateful, k)
			}
		}
	}

	// ---- system under test: one VM, under the scheduler
	machine := newMachine(cfg)
	ctxs := make([]context.Context, len(hist))
	cancels := make([]context.CancelFunc, len(hist))
	got := make([]invResult, len(hist))
	done := make([]bool, len(hist))
	staleFired := 0
	staleDuring := 0
	cur := -1
	var probeErr string
	var staleFn *object.Function
	var staleModFn *object.Function
	var prevFn, prevModFn *object.Function // of the library before the current one
	finished := false
	s.Go("main", "main", func() {
		for k, iv := range hist {
			cur = k
			if iv.Kind == kDeadline {
				ctxs[k], cancels[k] = context.WithTimeout(context.Background(), 50*time.Millisecond)
			} else if iv.Background {
				ctxs[k], cancels[k] = context.Background(), func() {}
			} else {
				ctxs[k], cancels[k] = context.WithCancel(context.Background())
			}
			if iv.CtxOS {
				ctxs[k] = ros.WithOS(ctxs[k], c07ReqOS(k))
				rc.Hit("ctx_carries_os")
			}
			if iv.Kind == kPreCancelled {
				rc.Hit("fault_pre_cancelled")
				cancels[k]()
			}
			base := s.Step
			for _, j := range sortedIntKeys(iv.Stale) {
				d := iv.Stale[j]
				j := j
				k := k
				s.AtStep(base+d, fmt.Sprintf("stale-cancel(ctx%d)", j), func() {
					rc.Hit("fault_stale_cancel")
					staleFired++
					if cur == k && !done[k] {
						staleDuring++
						rc.Hit("probe_stale_cancel_while_later_invocation_runs")
					}
					cancels[j]()
				})
			}
			switch iv.Kind {
			case kCancelled:
				fire := func() {
					rc.Hit("fault_own_cancel")
					cancels[k]()
					s.SetStrategy(sim.Fair{})
				}
				if iv.Fn == "impslow" && iv.OwnDelta%2 == 0 {
					// aimed: the cancel lands while the invocation sits at the
					// import (before the importer reads and parses the module)
					rc.Hit("fault_cancel_at_import")
					s.AtNextSite("vm.import", fmt.Sprintf("cancel(ctx%d)", k), fire)
					s.AtStep(base+1500, fmt.Sprintf("cancel(ctx%d)", k), fire) // fallback if the module was cached already
				} else {
					s.AtStep(base+iv.OwnDelta, fmt.Sprintf("cancel(ctx%d)", k), fire)
				}
			case kDeadline:
				s.AtStep(base+iv.OwnDelta, fmt.Sprintf("advance-clock(ctx%d)", k), func() {
					rc.Hit("fault_own_deadline")
					s.Advance(60 * time.Millisecond)
					s.SetStrategy(sim.Fair{})
				})
			}
			if iv.Kind == kStaleCall {
				got[k] = invResult{Val: "<no stale function kept>"}
				sfn, sargs := staleFn, []object.Object{object.NewInt(1), object.NewInt(2)}
				if iv.StalePrev {
					sfn = prevFn
				}
				if iv.StaleMod {
					sfn, sargs = staleModFn, nil
					if iv.StalePrev {
						sfn = prevModFn
					}
				}
				if sfn != nil {
					func() {
						defer func() {
							if r := recover(); r != nil {
								got[k] = invResult{Err: fmt.Sprintf("PANIC-ESCAPED: %v", r)}
							}
						}()
						v, err := machine.Call(ctxs[k], sfn, sargs)
						if err != nil {
							got[k] = invResult{Err: err.Error(), Raw: err}
						} else {
							got[k] = invResult{Val: inspectOrNil(v)}
						}
					}()
				}
			} else {
				got[k] = runInv(ctxs[k], machine, cfg, &failImport, iv, codes[k])
			}
			if (iv.API == "RunCode" || iv.API == "RisorCall" || iv.API == "Run") && iv.IsLib && got[k].Err == "" {
				prevFn, prevModFn = staleFn, staleModFn
				if fnObj, err := machine.Get("add"); err == nil {
					staleFn, _ = fnObj.(*object.Function)
				}
				if fnObj, err := machine.Get("modfn"); err == nil {
					staleModFn, _ = fnObj.(*object.Function)
				}
			}
			done[k] = true
			if iv.Kind == kCancelled || iv.Kind == kDeadline {
				s.SetStrategy(strat)
			}
			// the VM stays inspectable after every invocation
			func() {
				defer func() {
					if r := recover(); r != nil {
						// Not part of C07's statement (TOS/Get are accessors, not
						// invocations): counted, not reported.
						rc.Hit("probe_accessor_panicked_after_" + kindNames[iv.Kind])
					}
				}()
				machine.TOS()
				machine.GlobalNames()
				for _, name := range machine.GlobalNames() {
					if _, err := machine.Get(name); err != nil && probeErr == "" {
						probeErr = fmt.Sprintf("after invocation %d: Get(%q): %v", k, name, err)
					}
				}
			}()
		}
		// a final trivial run must still work
		cur = len(hist)
		ctxT, cancelT := context.WithCancel(context.Background())
		defer cancelT()
		r := runInv(ctxT, machine, cfg, &failImport, &invocation{API: "RunCode"}, compileSrc("1+1", cfg))
		if r.String() != "2" {
			probeErr = fmt.Sprintf("final RunCode(1+1) gave %s", r)
		}
		finished = true
	})
	s.Until = func() bool { return finished }
	verdict := s.Run()
	var cs []func()
	for _, c := range cancels {
		if c != nil {
			cs = append(cs, func() { c() })
		}
	}
	s.Shutdown(cs...)
	rc.AbsorbSim(s, strat.Name())
	rc.Hit("verdict_" + verdict.String())
	rc.Count("invocations", len(hist))

	var lines []string
	afterFailure := false
	for k, iv := range hist {
		line := fmt.Sprintf("%d: %s", k, iv)
		if len(iv.Stale) > 0 {
			line += fmt.Sprintf(" stale-cancels(ctx->+steps)=%v", iv.Stale)
		}
		if iv.OwnDelta > 0 {
			line += fmt.Sprintf(" own-fault@+%d", iv.OwnDelta)
		}
		line += fmt.Sprintf(" => got %s | model %s", got[k], expected[k])
		lines = append(lines, line)
		rc.Hit("kind_" + kindNames[iv.Kind])
		rc.Hit("api_" + iv.API)
		if k > 0 && hist[k-1].Kind != kNormal {
			afterFailure = true
			rc.Hit("probe_invocation_after_" + kindNames[hist[k-1].Kind])
		}
	}
	rc.NonTrivial = afterFailure || staleFired > 0
	if os.Getenv("VERIF_DEBUG_C07") != "" && rc.Counters["fault_cancel_at_import"] > 0 {
		fmt.Printf("DEBUG-C07 %s\n", strings.Join(lines, "\n"))
	}
	rc.Sample = map[string]any{"history": lines, "strategy": strat.Name(), "schedule": s.RenderTrace(30)}

	if verdict != sim.Done || !finished {
		// identify the invocation that hung
		k := cur
		if k >= 0 && k < len(hist) {
			rc.Violate("liveness/invocation-hung/"+kindNames[hist[k].Kind], "invocation %d (%s) did not return (verdict %s)", k, hist[k], verdict)
		} else {
			rc.Violate("liveness/final-probe-hung", "final trivial RunCode did not return (verdict %s)", verdict)
		}
		return
	}
	for k, iv := range hist {
		gk, ek := got[k], expected[k]
		if strings.HasPrefix(gk.Err, "PANIC-ESCAPED") {
			rc.Violate("panic/api", "invocation %d (%s): %s", k, iv, gk.Err)
			return
		}
		pred := "first"
		if k > 0 {
			pred = "after-" + kindNames[hist[k-1].Kind]
		}
		if iv.Kind == kStaleCall {
			continue // only "it returned" and "later invocations are unaffected" matter
		}
		if iv.Kind == kPreCancelled {
			// a short payload may complete before the watcher acts; what it may
			// not do is fail with anything but its context's error or return a
			// wrong value
			if gk.Err != "" && !ctxErrCarried(gk.Raw) {
				rc.Violate("pre-cancelled/foreign-error", "invocation %d (%s): %s", k, iv, gk.Err)
				return
			}
			if gk.Err == "" && ek.Err == "" && gk.Val != ek.Val {
				rc.Violate("pre-cancelled/wrong-value", "invocation %d (%s) returned %s; on a fresh VM it returns %s", k, iv, gk.Val, ek.Val)
				return
			}
			continue
		}
		if iv.Kind == kCancelled || iv.Kind == kDeadline {
			if gk.Err == "" {
				rc.Violate("cancelled/nil-error", "invocation %d (%s) was cancelled mid-run but returned success %s", k, iv, gk.Val)
				return
			}
			if !ctxErrCarried(gk.Raw) {
				rc.Violate("cancelled/foreign-error", "invocation %d (%s): %s", k, iv, gk.Err)
				return
			}
			continue
		}
		if gk.Err == "" && ek.Err == "" && gk.Val != ek.Val {
			cls := "wrong-value/" + pred
			if len(iv.Stale) > 0 {
				cls += "+stale-cancel"
			}
			rc.Violate(cls, "invocation %d (%s) returned success with value %s; the same invocation on a fresh VM gives %s", k, iv, gk.Val, ek.Val)
			return
		}
		if gk.Err != "" && ek.Err == "" {
			cls := "spurious-error/" + pred
			if ctxErrCarried(gk.Raw) {
				cls = "spurious-context-error"
			} else if len(iv.Stale) > 0 {
				cls += "+stale-cancel"
			}
			rc.Violate(cls, "invocation %d (%s) failed with %q; on a fresh VM it returns %s", k, iv, gk.Err, ek.Val)
			return
		}
		if gk.Err == "" && ek.Err != "" {
			rc.Violate("missing-error/"+pred, "invocation %d (%s) returned %s; on a fresh VM it fails with %q", k, iv, gk.Val, ek.Err)
			return
		}
		if gk.Err != ek.Err {
			rc.Violate("different-error/"+pred, "invocation %d (%s) failed with %q; on a fresh VM with %q", k, iv, gk.Err, ek.Err)
			return
		}
	}
	if probeErr != "" {
		rc.Violate("vm-unusable", "%s", probeErr)
		return
	}
	_ = staleDuring
}
