package checks

import (
	"context"
	"fmt"
	ros "github.com/risor-io/risor/os"
	goos "os"
	"reflect"
	"regexp"
	"runtime"
	"sort"
	"strings"
	"sync"
	"sync/atomic"
	"testing/fstest"

	"github.com/risor-io/risor"
	"github.com/risor-io/risor/builtins"
	"github.com/risor-io/risor/compiler"
	"github.com/risor-io/risor/importer"
	"github.com/risor-io/risor/object"
	"github.com/risor-io/risor/parser"
	"github.com/risor-io/risor/verif/fw"
	"github.com/risor-io/risor/verif/sim"
	"github.com/risor-io/risor/vm"
)

// ---------------------------------------------------------------------------
// Host types with methods whose parameters and results need converters.

type Point struct {
	X, Y int
}

type Svc struct {
	N int
	// Cur is read through the pointer-held Svc (svc.Cur.X), Echo hands the same
	// struct type back by value
	Cur Point
}

func (s *Svc) Sum(xs []int) int {
	t := s.N
	for _, x := range xs {
		t += x
	}
	return t
}

func (s *Svc) Keys(m map[string]int) []string {
	var ks []string
	for k := range m {
		ks = append(ks, k)
	}
	sort.Strings(ks)
	return ks
}

func (s *Svc) Echo(p Point) Point { return Point{X: p.X + s.N, Y: p.Y} }

func (s *Svc) Make(n int) []Point {
	var out []Point
	for i := 0; i < n; i++ {
		out = append(out, Point{X: i, Y: s.N})
	}
	return out
}

// Any returns a value of a Go type that has (very likely) never been converted
// before: a fresh array length per call, behind an interface.
func (s *Svc) Any(n int) any {
	id := int(freshCounter.Add(1))
	arr := reflect.New(reflect.ArrayOf(id%50000+2, reflect.TypeOf(0))).Elem()
	arr.Index(0).SetInt(int64(n))
	arr.Index(1).SetInt(int64(s.N))
	return arr.Interface()
}

func (s *Svc) Grid(rows [][]float64) float64 {
	t := 0.0
	for _, r := range rows {
		for _, v := range r {
			t += v
		}
	}
	return t
}

// ---------------------------------------------------------------------------
// Fresh reflect-made types: new type identities every run, so that the
// first-use paths of the type-converter and Go-type registries run every time.

var freshCounter atomic.Int64

type freshTypes struct {
	Rec  reflect.Type // struct { A int; B []string; C map[string]int; U<id> int }
	Item reflect.Type // struct { V int; W string; U<id> bool }
	// Pre is first seen by the registry through object.NewProxy, which every
	// evaluation's host task calls for its own value just before evaluating
	Pre reflect.Type // struct { P int; Q string; Inner struct{ R int }; U<id> int8 }
}

// preProxy builds evaluation k's own value of the Pre type and wraps it the
// way a host does that hands ready-made proxies to its scripts.
func (ft *freshTypes) preProxy(k int) object.Object {
	v := reflect.New(ft.Pre)
	v.Elem().FieldByName("P").SetInt(int64(900 + k))
	v.Elem().FieldByName("Q").SetString(fmt.Sprintf("q%d", k))
	px, err := object.NewProxy(v.Interface())
	if err != nil {
		return object.NewString("NewProxy failed: " + err.Error())
	}
	// the host looks at its new proxy straight away
	for _, name := range []string{"P", "Q", "Inner"} {
		if _, ok := px.GetAttr(name); !ok {
			return object.NewString("attribute " + name + " missing on a proxy that object.NewProxy has just returned")
		}
	}
	return px
}

func newFreshTypes() *freshTypes {
	id := freshCounter.Add(1)
	u := fmt.Sprintf("U%d", id)
	item := reflect.StructOf([]reflect.StructField{
		{Name: "V", Type: reflect.TypeOf(0)},
		{Name: "W", Type: reflect.TypeOf("")},
		{Name: u, Type: reflect.TypeOf(false)},
	})
	rec := reflect.StructOf([]reflect.StructField{
		{Name: "A", Type: reflect.TypeOf(0)},
		{Name: "B", Type: reflect.TypeOf([]string{})},
		{Name: "C", Type: reflect.TypeOf(map[string]int{})},
		{Name: "Items", Type: reflect.SliceOf(item)},
		{Name: u, Type: reflect.TypeOf(0)},
	})
	pre := reflect.StructOf([]reflect.StructField{
		{Name: "P", Type: reflect.TypeOf(0)},
		{Name: "Q", Type: reflect.TypeOf("")},
		{Name: "Inner", Type: reflect.StructOf([]reflect.StructField{{Name: "R", Type: reflect.TypeOf(0)}, {Name: u, Type: reflect.TypeOf(int16(0))}})},
		{Name: u, Type: reflect.TypeOf(int8(0))},
	})
	return &freshTypes{Rec: rec, Item: item, Pre: pre}
}

// values builds one evaluation's own globals over the (shared) fresh types.
func (ft *freshTypes) values(k int) map[string]any {
	rec := reflect.New(ft.Rec)
	rec.Elem().FieldByName("A").SetInt(int64(10 + k))
	rec.Elem().FieldByName("B").Set(reflect.ValueOf([]string{"b0", fmt.Sprintf("b%d", k)}))
	rec.Elem().FieldByName("C").Set(reflect.ValueOf(map[string]int{"k": k, "z": 26}))
	items := reflect.MakeSlice(reflect.SliceOf(ft.Item), 3, 3)
	for i := 0; i < 3; i++ {
		items.Index(i).FieldByName("V").SetInt(int64(i + k))
		items.Index(i).FieldByName("W").SetString(fmt.Sprintf("w%d", i))
	}
	rec.Elem().FieldByName("Items").Set(items)
	tab := reflect.MakeMap(reflect.MapOf(reflect.TypeOf(""), ft.Item))
	it := reflect.New(ft.Item).Elem()
	it.FieldByName("V").SetInt(int64(100 + k))
	tab.SetMapIndex(reflect.ValueOf("only"), it)
	arr := reflect.New(reflect.ArrayOf(2, ft.Item)).Elem()
	arr.Index(1).FieldByName("V").SetInt(int64(7 * k))
	it2 := reflect.New(ft.Item).Elem()
	it2.FieldByName("V").SetInt(int64(500 + k))
	return map[string]any{
		// values of fresh types behind interfaces (dynamic conversion paths)
		"anys":  []any{it2.Interface(), int64(k), "s", []int{k, 1}},
		"amap":  map[string]any{"x": it2.Interface(), "n": k},
		"rec":   rec.Interface(),        // pointer to fresh struct
		"recv":  rec.Elem().Interface(), // fresh struct by value
		"items": items.Interface(),      // slice of fresh struct
		"tab":   tab.Interface(),        // map[string]fresh struct
		"arr":   arr.Interface(),        // array of fresh struct
		"svc":   &Svc{N: k, Cur: Point{X: 30 + k, Y: 3}},
		"pt":    Point{X: k, Y: 2},
		"nums":  []int{k, k + 1, k + 2},
		"grid":  [][]float64{{1, 2}, {float64(k)}},
		// the struct type of Pre's field Inner, by value (pre.Inner reaches the
		// same type through a field of a pointer-held struct)
		"innerv": func() any {
			f, _ := ft.Pre.FieldByName("Inner")
			v := reflect.New(f.Type).Elem()
			v.FieldByName("R").SetInt(int64(70 + k))
			return v.Interface()
		}(),
	}
}

var c09Ops = []string{
	`out.append(rec.A)`,
	`rec.A = rec.A + 1; out.append(rec.A)`,
	`out.append(len(rec.B)); out.append(rec.B[1])`,
	`rec.B = ["x", "y", "z"]; out.append(len(rec.B))`,
	`out.append(rec.C.get("k", -1))`,
	`rec.C = {"q": 5}; out.append(rec.C["q"])`,
	`n := 0; for _, it := range rec.Items { n += it.V }; out.append(n)`,
	`out.append(recv.A)`,
	`n := 0; for _, it := range items { n += it.V }; out.append(n)`,
	`out.append(items[1].W)`,
	`out.append(tab["only"].V)`,
	`out.append(arr[1].V)`,
	`out.append(svc.Sum([1, 2, 3]))`,
	`out.append(svc.Sum(nums))`,
	`out.append(svc.Keys({"b": 1, "a": 2}))`,
	`out.append(svc.Echo({"X": 1, "Y": 2}).X)`,
	`out.append(svc.Echo(pt).Y)`,
	`n := 0; for _, p := range svc.Make(3) { n += p.X + p.Y }; out.append(n)`,
	`out.append(svc.Grid(grid))`,
	`out.append(svc.N)`,
	`out.append(encode("abc", "base64"))`,
	`out.append(string(decode(encode("hello", "hex"), "hex")))`,
	`out.append(encode([1, {"a": 2}], "json"))`,
	`out.append(decode("[1, 2]", "json"))`,
	`import shared_mod; out.append(shared_mod.triple(7))`,
	`from shared_mod import triple as tr; out.append(tr(2))`,
	`z := encode("payload-" + string(rec.A) + "-abcdefghijklmnopqrstuvwxyz", "gzip"); n := 0; for i := 0; i < 12; i++ { n += i }; out.append(string(decode(z, "gzip")))`,
	`z := encode(string(nums), "gzip"); out.append(len(z) > 0); out.append(string(decode(z, "gzip")))`,
	`t := spawn(func() { import statemod; return statemod.bump() }); import shared_mod; out.append(shared_mod.triple(t.wait()))`,
	`t := spawn(func() { import shared_mod; return shared_mod.triple(5) }); tr := spawn(func() { import statemod; return statemod.bump() }); out.append([t.wait(), tr.wait()])`,
	`out.append([10, 20, 30].map(func(i, x) { return i + x })); out.append(0 + 0); out.append(len([]))`,
	`n := 0; [5, 6, 7, 8].each(func(x) { n += x }); out.append(n); out.append([1, 2, 3].filter(func(x) { return x > 1 }))`,
	`out.append(svc.Cur.X + svc.Cur.Y)`,
	`out.append(svc.Cur.X); out.append(svc.Echo(pt).Y); out.append(svc.Echo({"X": 3, "Y": 4}).X)`,
	`out.append(pre.Inner.R + 1)`,
	`out.append(innerv.R + 2)`,
	`out.append(pre.P); out.append(pre.Q)`,
	`pre.P = pre.P + 1; out.append(pre.P + pre.Inner.R)`,
	`out.append(anys[0].V); out.append(len(anys))`,
	`out.append(amap["x"].V + amap["n"])`,
	`n := svc.Any(4); out.append(n[0] + n[1])`,
	`n := 0; for _, a := range [svc.Any(1), svc.Any(2)] { n += a[0] }; out.append(n)`,
	`func mkf(i) { g := func(x) { h := func() { return x + i }; return h() }; return g(i + 1) }; t := spawn(func() { return mkf(1) }); tr := spawn(func() { return mkf(3) }); out.append([mkf(5), t.wait(), tr.wait()])`,
	`func deep1(a) { func deep2(b) { func deep3(c) { return a + b + c }; return deep3(b + 1) }; return deep2(a + 1) }; t := spawn(deep1, 1); out.append([deep1(2), t.wait()])`,
	`out.append(try(func() { import badmod; return badmod.ok() }, func(e) { return string(e) }))`,
	`out.append(try(func() { import badmod2; return badmod2.x }, func(e) { return string(e) }))`,
	`t := spawn(func() { return try(func() { import badmod; return 1 }, func(e) { return string(e) }) }); out.append(t.wait())`,
	`import statemod; statemod.bump(); statemod.bump(); out.append(statemod.count)`,
	`import statemod as sm; out.append(sm.bump() + sm.count)`,
	`from statemod import bump as bmp; bmp(); import statemod; out.append(statemod.count)`,
	`out.append(try(func() { error("e-%d", 3) }, func(e) { return string(e) }))`,
	`out.append(try(func() { return 1 + "a" }, func(e) { return "type-error" }))`,
	`n := 0; for i := 0; i < 40; i++ { n += i }; out.append(n); out.append(byte(65))`,
	`out.append(string(sorted({3, 1, 2})))`,
	`t := spawn(func(a) { return a * 2 }, 21); out.append(t.wait())`,
	// what reflection on a host value hands out belongs to the evaluation that
	// asked: changing it must not show anywhere else
	`gm := svc.__type__.attributes["Sum"]; ei := gm.error_indices; nz := len(ei); ei.append(99); out.append(nz); out.append(len(gm.error_indices)); out.append(gm.num_in)`,
	`at := rec.__type__.attributes; nz := len(at); at["injected"] = 1; out.append(nz); out.append(len(rec.__type__.attributes)); out.append(at["A"].name)`,
	`ei := svc.__type__.attributes["Keys"].error_indices; out.append(string(ei)); ei.append(7); ej := svc.__type__.attributes["Sum"].error_indices; out.append(string(ej)); ej.append(8)`,
}

func genC09Program(g *sim.Stream) string {
	n := g.Range(3, 10)
	var b strings.Builder
	b.WriteString("out := []\n")
	for i := 0; i < n; i++ {
		op := c09Ops[g.Intn(len(c09Ops))]
		// every statement gets its own variable names
		// (string literals are left alone: only code outside quotes is renamed)
		parts := strings.Split(op, `"`)
		for pi := 0; pi < len(parts); pi += 2 {
			for _, v := range []string{"n", "t", "tr", "sm", "bmp", "z", "mkf", "deep1", "ei", "ej", "gm", "at", "nz"} {
				parts[pi] = regexp.MustCompile(`\b`+v+`\b`).ReplaceAllString(parts[pi], fmt.Sprintf("%s%d", v, i))
			}
		}
		op = strings.Join(parts, `"`)
		b.WriteString(op)
		b.WriteString("\n")
	}
	b.WriteString("out\n")
	return b.String()
}

// c09ModuleDir writes the shared modules to a scratch directory once per
// process (for LocalImporter).
var (
	c09DirOnce sync.Once
	c09Dir     string
)

func c09ModuleDir(files map[string]string) string {
	c09DirOnce.Do(func() {
		base := goos.Getenv("VERIF_OUT")
		if base == "" {
			base = goos.TempDir()
		} else {
			base = dirOf(base)
		}
		d, err := goos.MkdirTemp(base, "c09mods-")
		if err != nil {
			panic("harness: " + err.Error())
		}
		for n, t := range files {
			goos.WriteFile(d+"/"+n, []byte(t), 0o644)
		}
		c09Dir = d
	})
	return c09Dir
}

// ---------------------------------------------------------------------------
// race-detector log: GORACE=log_path=<prefix> makes the runtime append reports
// to <prefix>.<pid>; after every run the worker looks for new reports.

var (
	raceLogOff  int64
	raceLogOnce sync.Once
	raceLogPath string
)

var raceFrameRe = regexp.MustCompile(`^  (\S+)\(\)$`)

func raceLogFile() string {
	raceLogOnce.Do(func() {
		for _, kv := range strings.Fields(goos.Getenv("GORACE")) {
			if strings.HasPrefix(kv, "log_path=") {
				raceLogPath = strings.TrimPrefix(kv, "log_path=") + "." + fmt.Sprint(goos.Getpid())
			}
		}
	})
	return raceLogPath
}

// newRaceReports returns the reports appended since the last call.
func newRaceReports() []string {
	p := raceLogFile()
	if p == "" {
		return nil
	}
	b, err := goos.ReadFile(p)
	if err != nil || int64(len(b)) <= raceLogOff {
		return nil
	}
	text := string(b[raceLogOff:])
	raceLogOff = int64(len(b))
	var out []string
	for _, r := range strings.Split(text, "==================") {
		if strings.Contains(r, "DATA RACE") {
			out = append(out, strings.TrimSpace(r))
		}
	}
	return out
}

// noteForeignRace counts a race report that is not risor's. A race inside the
// harness is a harness defect: it is counted separately and its text is kept
// in the run's sample so that it gets fixed rather than overlooked.
func noteForeignRace(rc *fw.RunCtx, cls, rep string) {
	if cls == "race/harness" {
		rc.Hit("race_reports_in_harness")
		if goos.Getenv("VERIF_VERBOSE") != "" {
			fmt.Printf("HARNESS-RACE %s\n", rep)
		}
		return
	}
	rc.Hit("race_reports_outside_risor")
	if goos.Getenv("VERIF_VERBOSE") != "" {
		fmt.Printf("OUTSIDE-RACE %s\n", rep)
	}
}

// raceClass names a report by the frames that decide its two accesses. For
// each access the stack is walked from the innermost frame outwards, past the
// Go runtime and standard library; the first frame of the risor module family
// decides: a frame of risor proper makes it an access by risor code, a frame of
// the harness (risor/verif, internal/verifhook) - e.g. a host builtin the
// script called - makes it the harness's own access. Only a report in which
// every access is risor's is a risor race.
func raceClass(report string) (class string, inRisor bool) {
	var tops []string
	harness := false
	lines := strings.Split(report, "\n")
	for i, l := range lines {
		if strings.Contains(l, " by goroutine ") || strings.Contains(l, " by main goroutine") {
			top := ""
			for _, fl := range lines[i+1:] {
				if strings.TrimSpace(fl) == "" {
					break
				}
				if m := raceFrameRe.FindStringSubmatch(fl); m != nil {
					fn := m[1]
					if !strings.Contains(fn, "github.com/risor-io/risor/") {
						continue
					}
					if strings.Contains(fn, "risor/verif/") || strings.Contains(fn, "internal/verifhook") {
						harness = true
					} else {
						top = strings.TrimPrefix(fn, "github.com/risor-io/risor/")
					}
					break
				}
			}
			if top != "" {
				tops = append(tops, top)
			}
		}
	}
	if harness {
		return "race/harness", false
	}
	if len(tops) == 0 {
		return "race/outside-risor", false
	}
	sort.Strings(tops)
	if len(tops) > 2 {
		tops = tops[:2]
	}
	return "race/" + strings.Join(tops, "~"), true
}

// ---------------------------------------------------------------------------

func init() {
	fw.Register(&fw.Scenario{
		Property: "C09",
		Name:     "concurrent-vms",
		Run:      runC09,
		Level:    "exploration",
		Rule: "one run = 2..8 (thorough tier: up to 16) evaluations, each on its own VM with its own globals, over programs that touch every piece of package-level state (fresh reflect-made struct/slice/array/map types as globals and through proxy method calls, so that registry first-use paths run every time; " +
			"codec registry with a host task registering codecs concurrently; one shared importer; one shared compiled code object; error construction; clones of a running VM called from other host tasks). " +
			"Phase S (this binary without -race): all tasks run under the baton scheduler with yields before every registry lock, and each evaluation's result must equal the result of the same program run alone. " +
			"Phase R (binary built with -race): a seeded serial prefix up to a tape-chosen rendezvous step, then all tasks are released together; a race-detector report whose innermost frames are risor code is a violation. " +
			"non-trivial = at least 2 evaluations overlapped; distinct = distinct trace hash and program set",
		Real: []string{"object (typeconv, proxy, go_type, go_field, go_method)", "builtins (codecs)", "importer.FSImporter (shared)", "compiler.Code (shared)", "vm (Run, Clone, Call)", "errz"},
		Stub: []string{"scheduler (sim)", "host types Svc/Point and reflect-made fresh types", "host builtin publish"},
		Assumptions: []string{
			"phase R is a seeded happens-before monitor, not an exact replay: which code overlaps is decided by the seed, the physical timing inside the window is the machine's",
			"reports whose innermost frames are outside risor (harness code) are counted, not reported",
		},
	})
}

type c09Eval struct {
	prog    string
	globals map[string]any
	out     *EvalOutcome
	solo    string
}

func c09Opts(globals map[string]any, imp importer.Importer) []risor.Option {
	g := map[string]any{}
	for k, v := range builtins.Builtins() {
		g[k] = v
	}
	for k, v := range globals {
		g[k] = v
	}
	return []risor.Option{risor.WithoutDefaultGlobals(), risor.WithGlobals(g), risor.WithConcurrency(), risor.WithImporter(imp)}
}

func c09GlobalNames() []string {
	var names []string
	for k := range builtins.Builtins() {
		names = append(names, k)
	}
	names = append(names, "rec", "recv", "items", "tab", "arr", "svc", "pt", "nums", "grid", "publish", "anys", "amap", "pre", "innerv")
	sort.Strings(names)
	return names
}

func runC09(rc *fw.RunCtx) {
	g := rc.Tape.Stream("gen")
	n := g.Range(2, 8)
	if rc.Tier == "thorough" && g.Chance(1, 4) {
		n = g.Range(9, 16)
	}
	shareCode := g.Bool()
	withClones := g.Chance(1, 3)
	withCodecWriter := g.Chance(1, 2)
	modFiles := map[string]string{
		"shared_mod.risor": "func triple(x) { return x * 3 }\n",
		"statemod.risor":   "count := 0\nfunc bump() { count = count + 1; return count }\n",
		"badmod.risor":     "func ok() { return 1 }\nfunc broken( {\n",
		"badmod2.risor":    "x := 1\nx = undefined_in_module\n",
	}
	mfs := fstest.MapFS{}
	for n, t := range modFiles {
		mfs[n] = &fstest.MapFile{Data: []byte(t)}
	}
	names := c09GlobalNames()
	useLocal := g.Bool()
	newImporter := func() importer.Importer {
		if useLocal {
			return importer.NewLocalImporter(importer.LocalImporterOptions{GlobalNames: names, SourceDir: c09ModuleDir(modFiles), Extensions: []string{".risor"}})
		}
		return importer.NewFSImporter(importer.FSImporterOptions{GlobalNames: names, SourceFS: mfs, Extensions: []string{".risor"}})
	}

	evals := make([]*c09Eval, n)
	sharedProg := genC09Program(g)
	for k := range evals {
		e := &c09Eval{prog: sharedProg, out: &EvalOutcome{}}
		if !shareCode {
			e.prog = genC09Program(g)
		}
		evals[k] = e
	}
	// ---- solo reference: same programs, alone, on fresh types of the same shape.
	// In the race build it is computed AFTER the concurrent execution, so that
	// the concurrent one is the first user of every registry path in this run
	// (and, for the first run of a worker process, in the process).
	computeSolo := func() {
		ft := newFreshTypes()
		imp := newImporter()
		for k, e := range evals {
			gl := ft.values(k)
			gl["publish"] = object.NewBuiltin("publish", func(ctx context.Context, args ...object.Object) object.Object { return object.Nil })
			gl["pre"] = ft.preProxy(k)
			o := &EvalOutcome{}
			guard(o, func() (object.Object, error) { return risor.Eval(context.Background(), e.prog, c09Opts(gl, imp)...) })
			e.solo = o.String()
		}
	}
	if !raceBuild {
		computeSolo()
	}
	// ---- concurrent execution on another set of fresh types
	ft := newFreshTypes()
	imp := newImporter()
	sched := rc.Tape.Stream("sched")
	strat := sim.DrawStrategy(sched, 400)
	s := sim.New(sched, strat, 200000)
	ctx, cancel := context.WithCancel(context.Background())
	var sharedCode *compiler.Code
	var published atomic.Pointer[object.Function]
	var publishedVM atomic.Pointer[vm.VirtualMachine]
	cloneResults := make([]*EvalOutcome, 0)
	for k, e := range evals {
		e.globals = ft.values(k)
		e.globals["publish"] = object.NewBuiltin("publish", func(ctx context.Context, args ...object.Object) object.Object { return object.Nil })
		e.globals["pre"] = object.Nil // (the name; each task installs its own proxy)
	}
	if shareCode {
		cfg := risor.NewConfig(c09Opts(evals[0].globals, imp)...)
		ast, err := parser.Parse(ctx, sharedProg)
		if err != nil {
			panic("harness: " + err.Error())
		}
		sharedCode, err = compiler.Compile(ast, cfg.CompilerOpts()...)
		if err != nil {
			panic("harness: " + err.Error())
		}
	}
	for k, e := range evals {
		k, e := k, e
		s.Go("main", fmt.Sprintf("eval%d", k), func() {
			guard(e.out, func() (object.Object, error) {
				e.globals["pre"] = ft.preProxy(k)
				opts := c09Opts(e.globals, imp)
				if sharedCode != nil {
					return risor.EvalCode(ctx, sharedCode, opts...)
				}
				return risor.Eval(ctx, e.prog, opts...)
			})
		})
	}
	var codecMu sync.Mutex
	var codecNames []string
	if withCodecWriter {
		// two host tasks register codecs under different names while the
		// evaluations use the registry; afterwards every name must be there
		for w := 0; w < 2; w++ {
			id := freshCounter.Add(1)
			s.Go("host", fmt.Sprintf("codec-writer%d", w), func() {
				for i := 0; i < 3; i++ {
					s.Yield("host.codec")
					name := fmt.Sprintf("verif-%d-%d", id, i)
					err := builtins.RegisterCodec(name, &builtins.Codec{
						Encode: func(ctx context.Context, o object.Object) object.Object { return o },
						Decode: func(ctx context.Context, o object.Object) object.Object { return o },
					})
					if err == nil {
						codecMu.Lock()
						codecNames = append(codecNames, name)
						codecMu.Unlock()
					}
				}
			})
		}
	}
	// evaluations configured the ordinary way (risor.NewConfig with the default
	// globals, each its own configuration), one of them sandboxed with a deny
	// list and an override: configurations are independent of each other
	type denvEval struct {
		src, want string
		opts      []risor.Option
		out       *EvalOutcome
	}
	var denv []*denvEval
	var hostMapCheck map[string]any
	var envCheck map[string]string
	if g.Chance(1, 3) {
		// one host map handed to every configuration (each copies what it needs)
		// one environment template handed to every evaluation's own VirtualOS
		envTemplate := map[string]string{"MODE": "prod", "REGION": "eu"}
		envCheck = envTemplate
		hostMap := map[string]any{"hostval": 41}
		hostMapCheck = hostMap
		// (patterns no earlier run of this process has compiled; a module of the
		// tenants' common source directory that uses a host global)
		nonce := g.Intn(1000000)
		denvDir := c09DenvDir()
		plain := fmt.Sprintf(`os.setenv("TOKEN", "mine"); import denvmod; nre := 0; for i := 0; i < 6; i++ { if regexp.match("^a{" + string(i + 1) + ",}(x%dy)?$", "aaaaaaa") { nre++ } }; [math.sqrt(16.0), strings.repeat("ab", 2), math.abs(-3), math.PI > 3.1, hostval + 1, rand.intn(10) < 10, rand.float() < 1.0, len(rand.shuffle([1, 2, 3])), os.getenv("MODE"), os.getenv("TOKEN"), len(os.environ()), nre, denvmod.hv()]`, nonce)
		for i, n := 0, g.Range(1, 3); i < n; i++ {
			denv = append(denv, &denvEval{src: plain, want: `[4, "abab", 3, true, 42, true, true, 3, "prod", "mine", 3, 6, 42]`, opts: []risor.Option{risor.WithGlobals(hostMap), risor.WithConcurrency(), risor.WithLocalImporter(denvDir), risor.WithOS(ros.NewVirtualOS(ctx, ros.WithEnvironment(envTemplate)))}, out: &EvalOutcome{}})
		}
		sandbox := &denvEval{
			src:  `os.setenv("MODE", "debug"); os.setenv("TOKEN", "secret-of-the-sandbox"); [try(func() { return math.sqrt(4.0) }, func(e) { return "denied" }), try(func() { return strings.repeat("x", 2) }, func(e) { return "denied" }), math.abs(-3), math.PI, added, os.getenv("MODE"), func() { import denvplain; return denvplain.seven() }()]`,
			want: `["denied", "denied", 3, 3, 5, "debug", 7]`,
			opts: []risor.Option{risor.WithGlobals(hostMap), risor.WithConcurrency(), risor.WithLocalImporter(denvDir), risor.WithOS(ros.NewVirtualOS(ctx, ros.WithEnvironment(envTemplate))), risor.WithoutGlobals("math.sqrt", "strings.repeat", "hostval"), risor.WithGlobalOverride("math.PI", 3), risor.WithGlobal("added", 5)},
			out:  &EvalOutcome{},
		}
		at := g.Intn(len(denv) + 1)
		denv = append(denv[:at], append([]*denvEval{sandbox}, denv[at:]...)...)
		rc.Hit("default_env_evaluations_with_sandbox")
		for i, d := range denv {
			d := d
			s.Go("main", fmt.Sprintf("denv%d", i), func() {
				guard(d.out, func() (object.Object, error) { return risor.Eval(ctx, d.src, d.opts...) })
			})
		}
	}
	if withClones {
		// a VM that publishes a function early and then keeps running and
		// importing, while other host tasks clone it and call the function
		gl := ft.values(99)
		gl["publish"] = object.NewBuiltin("publish", func(ctx context.Context, args ...object.Object) object.Object {
			if len(args) == 1 {
				if fn, ok := args[0].(*object.Function); ok {
					published.Store(fn)
				}
			}
			return object.Nil
		})
		serverSrc := "func handle(x) { return svc.Sum([x, 1]) + rec.A }\npublish(handle)\nn := 0\nfor i := 0; i < 60; i++ { n += i }\nimport shared_mod\nfunc later(y) { return shared_mod.triple(y) }\nn + later(2)\n"
		serverOut := &EvalOutcome{}
		cfg := risor.NewConfig(c09Opts(gl, imp)...)
		ast, err := parser.Parse(ctx, serverSrc)
		if err != nil {
			panic("harness: " + err.Error())
		}
		code, err := compiler.Compile(ast, cfg.CompilerOpts()...)
		if err != nil {
			panic("harness: " + err.Error())
		}
		machine := vm.New(code, cfg.VMOpts()...)
		publishedVM.Store(machine)
		s.Go("main", "server", func() {
			guard(serverOut, func() (object.Object, error) {
				if err := machine.Run(ctx); err != nil {
					return nil, err
				}
				v, _ := machine.TOS()
				return v, nil
			})
		})
		for c := 0; c < 2; c++ {
			o := &EvalOutcome{}
			cloneResults = append(cloneResults, o)
			c := c
			s.Go("host", fmt.Sprintf("clone-caller%d", c), func() {
				for tries := 0; published.Load() == nil && !serverOut.IsDone(); tries++ {
					if s.Parallel() {
						if tries > 5000000 {
							break
						}
						runtime.Gosched()
						continue
					}
					if tries > 400 {
						break
					}
					s.Yield("host.wait-publish")
				}
				fn := published.Load()
				if fn == nil {
					o.Done = true
					return
				}
				guard(o, func() (object.Object, error) {
					clone, err := machine.Clone()
					if err != nil {
						return nil, err
					}
					return clone.Call(ctx, fn, []object.Object{object.NewInt(int64(5 + c))})
				})
			})
		}
		evals = append(evals, &c09Eval{prog: serverSrc, out: serverOut, solo: "1776"})
	}

	// phase R: seeded serial prefix, then a parallel window to the end
	prefix := -1
	if raceBuild {
		prefix = sched.Intn(300)
		if sched.Chance(1, 4) {
			prefix = 0
		}
		s.AtStep(prefix, "release-parallel-window", func() {
			rc.Hit("fault_parallel_window")
			s.FreeRun()
		})
	}
	s.Until = func() bool { return len(aliveExcept(s, "vm.watcher", "file.watcher")) == 0 }
	verdict := s.Run()
	s.Shutdown(cancel)
	if raceBuild {
		server := evals[n:]
		evals = evals[:n]
		computeSolo()
		evals = append(evals, server...)
	}
	rc.AbsorbSim(s, strat.Name())
	rc.NonTrivial = true
	rc.Count("evaluations", n)
	for _, name := range codecNames {
		if _, err := builtins.GetCodec(name); err != nil {
			rc.Violate("interference/codec-registry-lost-update", "codec %q was registered successfully by a host task while other registrations and evaluations were running, and is gone: %v", name, err)
			return
		}
	}
	if len(denv) > 0 {
		if len(envCheck) != 2 || envCheck["MODE"] != "prod" {
			rc.Violate("interference/host-map-modified", "the environment map the host passed to every VirtualOS was modified by the evaluations: %v", envCheck)
			return
		}
		if len(hostMapCheck) != 1 || hostMapCheck["hostval"] != 41 {
			rc.Violate("interference/host-map-modified", "the map the host passed to WithGlobals was modified by the configurations built from it: %v entries", len(hostMapCheck))
			return
		}
	}
	for i, d := range denv {
		if d.out.Panic != nil {
			rc.Violate("panic/api", "default-environment evaluation %d: panic reached the caller: %v", i, d.out.Panic)
			return
		}
		if got := d.out.String(); got != d.want {
			rc.Violate("interference/configuration", "default-environment evaluation %d (%s) returned %s next to a sandboxed configuration (deny list, override); alone it returns %s", i, d.src, got, d.want)
			return
		}
	}
	if raceBuild {
		rc.Hit("phase_R")
	} else {
		rc.Hit("phase_S")
	}
	var progs []string
	for k, e := range evals {
		progs = append(progs, fmt.Sprintf("eval%d: %s => %s (alone: %s)", k, strings.ReplaceAll(e.prog, "\n", " ⏎ "), e.out.String(), e.solo))
		rc.Digest ^= sim.HashString(e.prog)
	}
	rc.Sample = map[string]any{"evaluations": progs, "shared_code": shareCode, "clones": withClones, "parallel_window_from_step": prefix, "strategy": strat.Name()}

	// race reports first
	for _, rep := range newRaceReports() {
		cls, inRisor := raceClass(rep)
		if !inRisor {
			noteForeignRace(rc, cls, rep)
			continue
		}
		short := rep
		if len(short) > 1800 {
			short = short[:1800] + "…"
		}
		rc.Sample["race_report"] = short
		rc.Violate(cls, "race detector report during this run (parallel window from step %d):\n%s", prefix, short)
		return
	}
	if verdict != sim.Done {
		rc.Violate("liveness/concurrent-evals", "evaluations did not finish (verdict %s)", verdict)
		return
	}
	for k, e := range evals {
		if e.out.Panic != nil {
			rc.Violate("panic/api", "eval%d: panic reached the caller: %v", k, e.out.Panic)
			return
		}
		if e.out.Err != nil {
			// the generated programs wrap everything that may fail in try: an
			// evaluation that ends in an error has met something it would not
			// meet in a process of its own (whatever the reference run, in this
			// same process, says)
			rc.Violate("error/unexpected", "eval%d failed: %v; program: %s", k, e.out.Err, e.prog)
			return
		}
		if got := e.out.String(); got != e.solo {
			rc.Violate("interference/result", "eval%d returned %s when run concurrently with %d others, %s when run alone; program: %s", k, got, len(evals)-1, e.solo, e.prog)
			return
		}
	}
	for c, o := range cloneResults {
		if o.Panic != nil {
			rc.Violate("panic/api", "clone caller %d: panic: %v", c, o.Panic)
			return
		}
		if o.Result != nil {
			want := fmt.Sprint(99 + (5 + c) + 1 + (10 + 99))
			if o.Err != nil || safeInspect(o.Result) != want {
				rc.Violate("interference/clone-call", "clone caller %d got %s, expected %s", c, o.String(), want)
				return
			}
			rc.Hit("probe_clone_call_while_original_runs")
		}
	}
}

var (
	c09DenvOnce sync.Once
	c09DenvPath string
)

// c09DenvDir is the source directory the default-environment tenants share.
func c09DenvDir() string {
	c09DenvOnce.Do(func() {
		base := goos.Getenv("VERIF_OUT")
		if base == "" {
			base = goos.TempDir()
		} else {
			base = dirOf(base)
		}
		d, err := goos.MkdirTemp(base, "c09denv-")
		if err != nil {
			panic("harness: " + err.Error())
		}
		goos.WriteFile(d+"/denvmod.risor", []byte("func hv() { return hostval + 1 }\n"), 0o644)
		goos.WriteFile(d+"/denvplain.risor", []byte("func seven() { return 7 }\n"), 0o644)
		c09DenvPath = d
	})
	return c09DenvPath
}
