package checks

import (
	"context"
	"fmt"
	"github.com/risor-io/risor"
	"github.com/risor-io/risor/compiler"
	"github.com/risor-io/risor/object"
	"github.com/risor-io/risor/parser"
	"sort"
	"strings"
	"time"

	"github.com/anishathalye/porcupine"
	"github.com/risor-io/risor/verif/fw"
	"github.com/risor-io/risor/verif/sim"
)

// ---------------------------------------------------------------------------
// G-conc: producer/consumer topologies

type concProg struct {
	Src       string
	S, R      int
	Cap       int
	M         []int // messages per sender
	SendForm  []int // 0: c <- v   1: c.send(v)
	RecvForm  []int // 0: for _, v := range c  1: for v in c  2: <-c loop  3: c.receive() loop
	PSpawn    []int // 0: spawn(f, a...)  1: f.spawn(a...)  2: go f(a...)
	CSpawn    []int
	MainRecv  bool // main is the only receiver
	NilEvery  int  // >0: senders also send a nil payload after every NilEvery-th value (range receivers only)
	NilSent   int
	Total     int
	ConsFirst bool
	// LateCons: the channel is filled (everything fits into the buffer) and
	// closed before the first consumer starts
	LateCons bool
	// DeepThread: a spawned call that overflows the frame stack; wait() must
	// hand back its error
	DeepThread bool
	// Quiet: the consumers collect what they receive in a tight loop and report
	// it only after their loop has ended (no host call between two receives);
	// receive timestamps are then meaningless and the FIFO model is not consulted
	Quiet bool
	// ManySpawns: a loop whose iterator-made value is the spawn argument, far
	// beyond the small-integer cache; every thread must return its own value
	ManySpawns bool
	// LoopForm of the producers: 0 C-style, 1 `for i in n`, 2 `for _, i := range n`
	LoopForm int
}

func valueOf(id, seq int) int { return (id+1)*100000 + seq }

func genConc(g *sim.Stream, tier string) *concProg {
	p := &concProg{}
	maxM := 6
	if tier == "thorough" {
		maxM = 40
	}
	if raceBuild {
		// phase R: larger message counts, real parallelism
		maxM = 60
		if tier == "thorough" {
			maxM = 400
			if g.Chance(1, 10) {
				// the property's upper end: 10^4 messages over up to four senders
				maxM = 2500
			}
		}
	}
	p.LoopForm = g.Intn(3)
	if p.LoopForm > 0 && g.Chance(1, 12) {
		// iterator-made values beyond the small-integer cache (256)
		maxM = 330
		if raceBuild && tier == "thorough" {
			maxM = 2500
		}
	}
	p.S = g.Range(1, 4)
	p.R = g.Range(1, 4)
	p.Cap = g.Intn(9)
	p.MainRecv = g.Chance(1, 8)
	if p.MainRecv {
		p.R = 0
	}
	p.ConsFirst = g.Bool()
	for i := 0; i < p.S; i++ {
		m := g.Range(1, maxM)
		p.M = append(p.M, m)
		p.Total += m
		p.SendForm = append(p.SendForm, g.Intn(2))
		p.PSpawn = append(p.PSpawn, g.Intn(12))
	}
	for i := 0; i < p.R; i++ {
		rf := g.Intn(5)
		if rf == 4 {
			rf = 6 // for-in left with break, nested in an iterator loop
		}
		p.RecvForm = append(p.RecvForm, rf)
		p.CSpawn = append(p.CSpawn, g.Intn(3))
	}
	lateOdds := 5
	if raceBuild {
		// only real parallelism can make two ranging consumers collide on the
		// last buffered value of a closed channel: favour that shape in phase R
		lateOdds = 2
	}
	if !p.MainRecv && p.Cap >= 2 && g.Chance(1, lateOdds) {
		if raceBuild {
			for p.R < 4 {
				p.R++
				p.RecvForm = append(p.RecvForm, g.Intn(2))
				p.CSpawn = append(p.CSpawn, g.Intn(3))
			}
		}
		// everything must fit into the buffer: shrink the message counts
		p.LateCons = true
		p.Total = 0
		left := p.Cap
		for i := range p.M {
			m := 1
			if left-(p.S-i) > 0 {
				m = 1 + g.Intn(left-(p.S-i)+1)
			}
			if m > left-(p.S-1-i) {
				m = left - (p.S - 1 - i)
			}
			if m < 1 {
				m = 1
			}
			p.M[i] = m
			left -= m
			p.Total += m
		}
		if p.Total > p.Cap {
			p.LateCons = false // (more senders than slots)
		}
		p.ConsFirst = false
		if p.LateCons && (raceBuild || g.Bool()) {
			p.Quiet = true
			for i := range p.RecvForm {
				p.RecvForm[i] = 4 + g.Intn(2)
			}
		}
	}
	p.DeepThread = g.Chance(1, 5)
	p.ManySpawns = g.Chance(1, 40)
	allRange := !p.MainRecv
	for _, f := range p.RecvForm {
		if f == 2 || f == 3 {
			allRange = false
		}
	}
	if allRange && !p.LateCons && g.Chance(1, 3) {
		p.NilEvery = 1 + g.Intn(3)
		for _, m := range p.M {
			p.NilSent += m / p.NilEvery
		}
	}
	var b strings.Builder
	w := func(f string, a ...any) { fmt.Fprintf(&b, f+"\n", a...) }
	w("c := chan(%d)", p.Cap)
	w("pdone := chan(8)")
	w("cdone := chan(8)")
	for form := 0; form < 2; form++ {
		w("func producer%d(id, n) {", form)
		w("  pstart(id, n)")
		// the loop variable is a value handed out by an iterator in two of the
		// three forms (and is sent on, i.e. outlives the step)
		switch p.LoopForm {
		case 1:
			w("  for i in n {")
		case 2:
			w("  for _, i := range n {")
		default:
			w("  for i := 0; i < n; i++ {")
		}
		w("    v := (id+1)*100000 + i")
		w("    sinv(id, i)")
		if form == 0 {
			w("    c <- v")
		} else {
			w("    c.send(v)")
		}
		w("    sent(id, i)")
		if p.NilEvery > 0 {
			// nil is a value like any other: a range loop must deliver it and go on
			w("    if (i + 1) %% %d == 0 { c <- nil; nilsent(id) }", p.NilEvery)
		}
		w("  }")
		w("  return id*7 + n")
		w("}")
		w("func gproducer%d(id, n) { producer%d(id, n); pdone <- id }", form, form)
	}
	// consumers pass a gate first; it is open from the start, except in the
	// late-consumer shape, where main opens it once all consumers exist, so
	// that they set upon the full, closed channel together
	w("gate := chan()")
	if !p.LateCons {
		w("close(gate)")
	}
	w("func consumer0(rid) { <-gate; k := 0; rinv(rid); for _, v := range c { if v == nil { gotnil(rid) } else { emit(rid, v); k++ }; rinv(rid) }; rend(rid); return k }")
	w("func consumer1(rid) { <-gate; k := 0; rinv(rid); for v in c { if v == nil { gotnil(rid) } else { emit(rid, v); k++ }; rinv(rid) }; rend(rid); return k }")
	// closures made from ONE function literal, each with its own captured tag
	w("func mkp(tag, form) { return func(id, n) { ptag(id, tag); if form == 0 { return producer0(id, n) }; return producer1(id, n) } }")
	w("func consumer2(rid) { <-gate; k := 0; for { rinv(rid); v := <-c; if v == nil { rend(rid); break }; emit(rid, v); k++ }; return k }")
	w("func consumer3(rid) { <-gate; k := 0; for { rinv(rid); v := c.receive(); if v == nil { rend(rid); break }; emit(rid, v); k++ }; return k }")
	w("func report(rid, vals) { k := 0; rinv(rid); for _, v := range vals { if v == nil { gotnil(rid) } else { emit(rid, v); k++ }; rinv(rid) }; rend(rid); return k }")
	w("func consumer4(rid) { <-gate; vals := []; for _, v := range c { vals.append(v) }; return report(rid, vals) }")
	w("func consumer5(rid) { <-gate; vals := []; for v in c { vals.append(v) }; return report(rid, vals) }")
	// one message per inner loop, left with break, inside an outer iterator loop
	w("func consumer6(rid) { <-gate; k := 0; over := false; for _, round := range 1000000 { if over { break }; rinv(rid); got := false; for v in c { got = true; if v == nil { gotnil(rid) } else { emit(rid, v); k++ }; break }; if !got { over = true } }; rend(rid); return k }")
	for form := 0; form < 7; form++ {
		w("func gconsumer%d(rid) { consumer%d(rid); cdone <- rid }", form, form)
	}
	// a launcher with more than eight locals whose goroutine closes over the
	// launcher's own variables; it is called once per producer that uses it
	w("func launch(lid, ln, lform) {")
	w("  a1 := lid + 1; a2 := a1 + 1; a3 := a2 + 1; a4 := a3 + 1; a5 := a4 + 1; a6 := a5 + 1; a7 := a6 + 1; a8 := a7 + 1; a9 := a8 + 1")
	w("  myid := lid; myn := ln")
	w("  go func() { if lform == 0 { producer0(myid, myn) } else { producer1(myid, myn) }; r := myid + (a9 - a9); pdone <- r }()")
	w("}")
	// a launcher whose goroutine closes over variables of an `if` block; a later
	// block of the same function declares other variables before returning
	w("func launchb(lid, ln, lform) {")
	w("  if lid >= 0 { bid := lid; bn := ln; go func() { if lform == 0 { producer0(bid, bn) } else { producer1(bid, bn) }; pdone <- bid }() }")
	w("  if lid >= 0 { other := \"unrelated\"; other2 := 99 + lid; if other2 < 0 { error(other) } }")
	w("  for q := 0; q < 2; q++ { third := [q, lid]; if len(third) == 0 { error(\"x\") } }")
	w("}")
	w("pts := []")
	w("bts := []")
	w("cts := []")
	w("pid := -1")
	w("n := -1")
	w("rid := -1")
	spawnCons := func() {
		for i := 0; i < p.R; i++ {
			w("rid = %d", i)
			f := fmt.Sprintf("consumer%d", p.RecvForm[i])
			switch p.CSpawn[i] {
			case 0:
				w("cts.append([rid, spawn(%s, rid)])", f)
			case 1:
				w("cts.append([rid, %s.spawn(rid)])", f)
			case 2:
				w("go g%s(rid)", f)
			}
			w("rid = -5")
		}
	}
	spawnProd := func() {
		for i := 0; i < p.S; i++ {
			w("pid = %d", i)
			w("n = %d", p.M[i])
			f := fmt.Sprintf("producer%d", p.SendForm[i])
			switch p.PSpawn[i] {
			case 0:
				w("pts.append([pid, spawn(%s, pid, n)])", f)
			case 1:
				w("pts.append([pid, %s.spawn(pid, n)])", f)
			case 2:
				w("go g%s(pid, n)", f)
			case 3:
				w("cl%d := mkp(pid*11+3, %d)", i, p.SendForm[i])
				w("pts.append([pid, cl%d.spawn(pid, n)])", i)
			case 4:
				w("cl%d := mkp(pid*11+3, %d)", i, p.SendForm[i])
				w("pts.append([pid, spawn(cl%d, pid, n)])", i)
			case 5:
				w("launch(pid, n, %d)", p.SendForm[i])
			case 7, 8:
				// the spawn target is a builtin that calls back into script code:
				// list.each over the sequence numbers, the callback sends
				w("vals%d := []", i)
				w("for k := 0; k < n; k++ { vals%d.append(k) }", i)
				w("eid%d := pid", i)
				w("en%d := n", i)
				w("pstart(pid, n)")
				send := "c <- v"
				if p.SendForm[i] == 1 {
					send = "c.send(v)"
				}
				nilPart := ""
				if p.NilEvery > 0 {
					nilPart = fmt.Sprintf("if (k + 1) %% %d == 0 { c <- nil; nilsent(eid%d) }; ", p.NilEvery, i)
				}
				cb := fmt.Sprintf("func(k) { v := (eid%d+1)*100000 + k; sinv(eid%d, k); %s; sent(eid%d, k); %sif k == en%d-1 { pdone <- eid%d } }", i, i, send, i, nilPart, i, i)
				if p.PSpawn[i] == 7 {
					w("bts.append(spawn(vals%d.each, %s))", i, cb)
				} else {
					w("go vals%d.each(%s)", i, cb)
				}
			case 9:
				w("launchb(pid, n, %d)", p.SendForm[i])
			case 10:
				// spawned code with two deferred closures: both run, in reverse order
				w("pts.append([pid, spawn(func(id, n) { defer func() { pdone <- id }(); defer func() { ptag(id, id*11+3) }(); return %s(id, n) }, pid, n)])", f)
			case 11:
				// a closure (it captures a local of the function that made it) with
				// a defaulted parameter, spawned with that argument left out
				w("cd%d := func(tag) { return func(id, cnt=%d) { if tag < 0 { error(\"tag\") }; return %s(id, cnt) } }(pid)", i, p.M[i], f)
				switch p.M[i] % 2 {
				case 0:
					w("pts.append([pid, spawn(cd%d, pid)])", i)
				default:
					w("pts.append([pid, cd%d.spawn(pid)])", i)
				}
			case 6:
				// a starter thread that spawns the producer and returns at once:
				// the producer outlives the thread that started it
				w("st%d := spawn(func(sid, sn) { return spawn(%s, sid, sn) }, pid, n)", i, f)
				w("pts.append([pid, st%d.wait()])", i)
			}
			w("pid = -7")
			w("n = -9")
		}
	}
	if p.ConsFirst {
		spawnCons()
		spawnProd()
	} else {
		spawnProd()
		if !p.LateCons {
			spawnCons()
		}
	}
	if p.MainRecv {
		w("for i := 0; i < %d; i++ { rinv(99); v := <-c; emit(99, v) }", p.Total)
	}
	w("for _, pt := range pts { waited(0, pt[0], pt[1].wait()) }")
	w("for _, bt := range bts { bt.wait() }")
	ngo := 0
	for _, f := range p.PSpawn {
		if f == 2 || f == 5 || f == 7 || f == 8 || f == 9 || f == 10 {
			ngo++
		}
	}
	if ngo > 0 {
		w("for i := 0; i < %d; i++ { <-pdone }", ngo)
	}
	if g.Bool() {
		w("cinv(); c.close(); closed()")
	} else {
		w("cinv(); close(c); closed()")
	}
	if p.LateCons {
		// only now, with the channel full and closed, do the consumers start
		spawnCons()
		w("close(gate)")
	}
	w("for _, ct := range cts { waited(1, ct[0], ct[1].wait()) }")
	ngo = 0
	for _, f := range p.CSpawn {
		if f == 2 {
			ngo++
		}
	}
	if ngo > 0 {
		w("for i := 0; i < %d; i++ { <-cdone }", ngo)
	}
	if p.MainRecv {
		w("rinv(99); last := <-c; if last == nil { rend(99) } else { emit(99, last) }")
	}
	// thread result / error and spawn-site argument snapshot
	w("a := 5")
	w("ta := spawn(func(x, y) { return [x, y] }, a, a+1)")
	w("a = 77")
	w("te := spawn(func(k) { error(\"boom 100%%%% at %%d\", k) }, a)")
	w("a = 78")
	w("ra := ta.wait()")
	if g.Bool() {
		// the bound method handed to try, then a second wait: both report the error
		w("r0 := try(te.wait, func(e) { return \"caught:\" + string(e) })")
		w("if r0 != \"caught:boom 100%% at 77\" { error(\"first wait gave something else\") }")
	}
	w("re := try(func() { return te.wait() }, func(e) { return \"caught:\" + string(e) })")
	// a spawned function that RETURNS an error value (nothing is raised): wait()
	// hands the value over like any other result
	w("func soft(k) { return try(func() { error(\"soft %%d\", k) }, func(e) { return e }) }")
	switch g.Intn(3) {
	case 0:
		w("tv := spawn(soft, 4)")
	case 1:
		w("tv := soft.spawn(4)")
	default:
		w("tv := spawn(func(k) { return soft(k) }, 4)")
	}
	w("rv := try(func() { return tv.wait() }, func(e) { return \"raised:\" + string(e) })")
	// spawn from inside a two-parameter list.map callback: index and value are
	// the arguments given at the spawn site
	w("mts := [\"a\", \"b\", \"c\"].map(func(i, v) { return spawn(func(x, y) { return [x, y] }, i, v) })")
	w("rm := mts.map(func(t) { return t.wait() })")
	w("if string(rm) != \"[[0, \\\"a\\\"], [1, \\\"b\\\"], [2, \\\"c\\\"]]\" { error(\"threads spawned from a list.map callback got \" + string(rm)) }")
	if p.ManySpawns {
		if g.Bool() {
			w("ths := []; for i in 300 { ths.append(spawn(func(x) { return x }, i)) }")
		} else {
			w("ths := []; for _, i := range 300 { ths.append(spawn(func(x) { return x }, i)) }")
		}
		w("for j, t := range ths { if t.wait() != j { error(\"thread \" + string(j) + \" did not get the argument given at its spawn site\") } }")
	}
	if p.DeepThread {
		// a spawned call that dies of a frame-stack overflow: wait() reports it
		w("func rec(k) { return rec(k+1) + 1 }")
		w("tp := spawn(rec, 0)")
		w("rp := try(func() { return tp.wait() }, func(e) { return \"caught-overflow\" })")
		w("[ra, re, type(rv), string(rv), rp]")
	} else {
		w("[ra, re, type(rv), string(rv)]")
	}
	p.Src = b.String()
	return p
}

// ---------------------------------------------------------------------------
// Linearizability model: FIFO queue, nil after close-and-drained. Capacity is
// deliberately not modelled (an unbuffered send overlaps its receive and
// linearizes just before it).

type qIn struct {
	Op int // 0 send, 1 recv, 2 close
	V  int
}
type qOut struct {
	V   int // received value, or -1 for nil
	Nil bool
}
type qState struct {
	Q      string // comma-joined ints (comparable)
	Closed bool
}

func qPush(q string, v int) string {
	if q == "" {
		return fmt.Sprint(v)
	}
	return q + "," + fmt.Sprint(v)
}
func qPop(q string) (head string, rest string) {
	if i := strings.IndexByte(q, ','); i >= 0 {
		return q[:i], q[i+1:]
	}
	return q, ""
}

var queueModel = porcupine.Model{
	Init: func() interface{} { return qState{} },
	Step: func(state, input, output interface{}) (bool, interface{}) {
		st := state.(qState)
		in := input.(qIn)
		out := output.(qOut)
		switch in.Op {
		case 0:
			if st.Closed {
				return false, st
			}
			return true, qState{Q: qPush(st.Q, in.V), Closed: st.Closed}
		case 1:
			if out.Nil {
				return st.Closed && st.Q == "", st
			}
			if st.Q == "" {
				return false, st
			}
			h, rest := qPop(st.Q)
			if h != fmt.Sprint(out.V) {
				return false, st
			}
			return true, qState{Q: rest, Closed: st.Closed}
		default:
			return true, qState{Q: st.Q, Closed: true}
		}
	},
	Equal: func(a, b interface{}) bool { return a.(qState) == b.(qState) },
}

// ---------------------------------------------------------------------------

func init() {
	fw.Register(&fw.Scenario{
		Property: "C10",
		Name:     "conc-topologies",
		Runs:     map[string]int{"quick": 6000, "thorough": 200000},
		Wall:     map[string]int{"quick": 60, "thorough": 1200},
		Run:      runC10,
		Level:    "exploration",
		Rule: "one run = one generated producer/consumer program (1..4 senders, 0..4 receivers, buffer 0..8, all spawn/send/receive forms) executed under one seeded schedule; " +
			"phase R (binary built with -race, larger message counts): a seeded serial prefix, then all tasks released together; the same history oracles plus the race detector; " +
			"non-trivial = at least one preemption (the scheduler switched away from a task that could have continued) or a parallel window; distinct = distinct hash of the (task, site) sequence and program",
		Real: []string{"risor.Eval", "parser", "compiler", "vm (eval loop, Clone, cloneCallAsync)", "object.Chan", "object.Thread", "object.Spawn", "builtins (spawn, chan, close, try)"},
		Stub: []string{"scheduler (sim)", "host builtins pstart/sinv/sent/rinv/emit/rend/cinv/closed/waited"},
		Assumptions: []string{
			"hooks cover every blocking primitive of object/chan.go and object/thread.go and every VM instruction boundary",
			"between two hooks a task runs unobserved (atomicity inside one opcode is only visible to the race phase)",
		},
	})
}

type sendRec struct {
	id, seq  int
	inv, ret int64
	done     bool
}
type recvRec struct {
	rid      int
	v        int
	isNil    bool
	inv, ret int64
}

func runC10(rc *fw.RunCtx) {
	g := rc.Tape.Stream("gen")
	prog := genConc(g, rc.Tier)
	maxSteps := 20000
	if rc.Tier == "thorough" {
		maxSteps = 120000
	}
	maxSteps += 80 * prog.Total
	if prog.ManySpawns {
		maxSteps += 60000
	}
	stratStream := rc.Tape.Stream("sched")
	strat := sim.DrawStrategy(stratStream, 200+prog.Total*20)
	s := sim.New(stratStream, strat, maxSteps)
	h := &Host{}
	extra := map[string]any{}
	for _, n := range []string{"pstart", "sinv", "sent", "rinv", "emit", "rend", "cinv", "closed", "waited", "nilsent", "gotnil", "ptag"} {
		extra[n] = h.Recorder(n)
	}
	ctx, cancel := context.WithCancel(context.Background())
	// In a fifth of the runs the program is compiled once and evaluated twice,
	// each time on a fresh VM (a host that caches compiled scripts); the oracles
	// judge the second evaluation, whose goroutines must be ITS goroutines
	var out *EvalOutcome
	twice := g.Chance(1, 5)
	var outFirst *EvalOutcome
	if twice {
		s.MaxSteps *= 2
		rc.Hit("shape_same_code_on_two_fresh_vms")
		cfg := risor.NewConfig(baseOpts(extra)...)
		astT, err := parser.Parse(context.Background(), prog.Src)
		if err != nil {
			panic("harness: " + err.Error())
		}
		codeT, err := compiler.Compile(astT, cfg.CompilerOpts()...)
		if err != nil {
			panic("harness: " + err.Error())
		}
		out, outFirst = &EvalOutcome{}, &EvalOutcome{}
		s.Go("main", "main", func() {
			guard(outFirst, func() (object.Object, error) { return risor.EvalCode(ctx, codeT, baseOpts(extra)...) })
			if outFirst.Err != nil || outFirst.Panic != nil {
				// the first evaluation already failed: report that one
				out.Result, out.Err, out.Panic = outFirst.Result, outFirst.Err, outFirst.Panic
				out.Done = true
				out.done.Store(true)
				return
			}
			h.Reset()
			guard(out, func() (object.Object, error) { return risor.EvalCode(ctx, codeT, baseOpts(extra)...) })
		})
	} else {
		out = evalTask(s, "main", ctx, prog.Src, baseOpts(extra))
	}
	s.Until = func() bool { return out.Done && len(aliveExcept(s, "vm.watcher", "file.watcher")) == 0 }
	prefix := -1
	if raceBuild {
		// phase R (as in C09): seeded serial prefix, then a parallel window
		prefix = stratStream.Intn(400)
		if stratStream.Chance(1, 4) {
			prefix = 0
		}
		s.MaxSteps = 1 << 30
		s.AtStep(prefix, "release-parallel-window", func() {
			rc.Hit("fault_parallel_window")
			s.FreeRun()
		})
	}
	verdict := s.Run()
	mainDone := out.Done
	alive := aliveExcept(s, "vm.watcher", "file.watcher")
	stuck := s.Shutdown(cancel)
	rc.AbsorbSim(s, strat.Name())
	rc.Digest ^= sim.HashString(prog.Src)
	if prefix >= 0 {
		rc.NonTrivial = true
	}
	rc.Count("stuck_after_shutdown", len(stuck))
	rc.Hit("verdict_" + verdict.String())
	if prog.LateCons {
		rc.Hit("shape_late_consumers")
	}
	if prog.Quiet {
		rc.Hit("shape_quiet_consumers")
	}
	if prog.DeepThread {
		rc.Hit("shape_deep_thread")
	}
	rc.Sample = map[string]any{
		"program":  prog.Src,
		"schedule": s.RenderTrace(60),
		"strategy": strat.Name(),
		"shape":    fmt.Sprintf("S=%d R=%d cap=%d M=%v mainRecv=%v", prog.S, prog.R, prog.Cap, prog.M, prog.MainRecv),
		"result":   out.String(),
	}

	if raceBuild {
		rc.Hit("phase_R")
		for _, rep := range newRaceReports() {
			cls, inRisor := raceClass(rep)
			if !inRisor {
				rc.Hit("race_reports_outside_risor")
				continue
			}
			if len(rep) > 1800 {
				rep = rep[:1800] + "…"
			}
			rc.Sample["race_report"] = rep
			rc.Violate(cls, "race detector report during this run (parallel window from step %d):\n%s", prefix, rep)
			return
		}
	} else {
		rc.Hit("phase_S")
	}
	if verdict == sim.StepLimit {
		rc.Inconclusive = "steplimit"
		return
	}
	if out.Panic != nil {
		rc.Violate("panic/api", "panic reached the API caller: %v", out.Panic)
		return
	}
	if verdict == sim.Blocked || !mainDone {
		// close: iteration ends at close; everything is waited for. A program
		// of this family always terminates, so a blocked run is a lost value
		// or a range that did not end.
		var where []string
		for _, t := range alive {
			where = append(where, fmt.Sprintf("%d:%s@%s", t.ID, t.Kind, t.Site()))
		}
		rc.Violate("liveness/blocked", "program did not terminate (verdict=%s); alive tasks: %s", verdict, strings.Join(where, " "))
		return
	}
	if out.Err != nil {
		rc.Violate("error/unexpected", "program failed: %v", out.Err)
		return
	}

	// ---- rebuild the history from the host log
	evs := h.Events()
	sends := map[[2]int]*sendRec{}
	var sendOrder []*sendRec
	var recvs []*recvRec
	pendingRinv := map[int]int64{}
	started := map[[2]int]int{}
	var closeInv, closeRet int64 = -1, -1
	nilSent, nilGot, tagged := 0, 0, 0
	waitedP := map[int]int64{}
	waitedC := map[int]int64{}
	arg := func(e HostEvent, i int) int {
		if i < len(e.Args) {
			return int(e.Args[i])
		}
		return -424242
	}
	for _, e := range evs {
		switch e.Name {
		case "pstart":
			started[[2]int{arg(e, 0), arg(e, 1)}]++
		case "sinv":
			r := &sendRec{id: arg(e, 0), seq: arg(e, 1), inv: e.Seq}
			sends[[2]int{r.id, r.seq}] = r
			sendOrder = append(sendOrder, r)
		case "sent":
			if r := sends[[2]int{arg(e, 0), arg(e, 1)}]; r != nil {
				r.ret = e.Seq
				r.done = true
			}
		case "rinv":
			pendingRinv[arg(e, 0)] = e.Seq
		case "emit":
			rid := arg(e, 0)
			rec := &recvRec{rid: rid, inv: pendingRinv[rid], ret: e.Seq}
			if e.Str != "" || len(e.Args) < 2 {
				rec.isNil = true // a non-int value was delivered
				rec.v = -1
			} else {
				rec.v = arg(e, 1)
			}
			recvs = append(recvs, rec)
		case "rend":
			rid := arg(e, 0)
			recvs = append(recvs, &recvRec{rid: rid, isNil: true, v: -1, inv: pendingRinv[rid], ret: e.Seq})
		case "nilsent":
			nilSent++
		case "gotnil":
			nilGot++
		case "ptag":
			if arg(e, 1) != arg(e, 0)*11+3 {
				rc.Violate("spawn/closure-identity", "producer %d ran inside a closure created for tag %d (expected tag %d): the spawned call is not the closure that was spawned", arg(e, 0), arg(e, 1), arg(e, 0)*11+3)
				return
			}
			tagged++
		case "cinv":
			closeInv = e.Seq
		case "closed":
			closeRet = e.Seq
		case "waited":
			if arg(e, 0) == 0 {
				waitedP[arg(e, 1)] = int64(arg(e, 2))
			} else {
				waitedC[arg(e, 1)] = int64(arg(e, 2))
			}
		}
	}

	// 5. spawn-site argument snapshot
	for i := 0; i < prog.S; i++ {
		if started[[2]int{i, prog.M[i]}] != 1 {
			rc.Violate("spawn/args", "producer %d should have started once with (id=%d, n=%d); starts seen: %v", i, i, prog.M[i], started)
			return
		}
	}
	if len(started) != prog.S {
		rc.Violate("spawn/args", "unexpected producer starts: %v", started)
		return
	}
	// 1. conservation
	sentSet := map[int]int{}
	for _, r := range sendOrder {
		if !r.done {
			rc.Violate("conservation/send-incomplete", "send (%d,%d) never returned", r.id, r.seq)
			return
		}
		sentSet[valueOf(r.id, r.seq)]++
	}
	if len(sendOrder) != prog.Total {
		rc.Violate("conservation/sent-count", "expected %d sends, saw %d", prog.Total, len(sendOrder))
		return
	}
	gotSet := map[int]int{}
	perRecv := map[int][]int{}
	for _, r := range recvs {
		if r.isNil {
			continue
		}
		gotSet[r.v]++
		perRecv[r.rid] = append(perRecv[r.rid], r.v)
	}
	var lost, dup []int
	for v, n := range sentSet {
		if gotSet[v] < n {
			lost = append(lost, v)
		}
	}
	for v, n := range gotSet {
		if n > sentSet[v] {
			dup = append(dup, v)
		}
	}
	sort.Ints(lost)
	sort.Ints(dup)
	if len(lost) > 0 || len(dup) > 0 {
		forms := map[int]bool{}
		for _, f := range prog.RecvForm {
			forms[f] = true
		}
		locus := "recv"
		if (forms[0] || forms[1] || forms[4] || forms[5] || forms[6]) && prog.R >= 2 {
			locus = "range,receivers>=2"
		}
		rc.Violate("conservation/"+locus, "lost=%v duplicated=%v (sent %d values, received %d)", lost, dup, len(sendOrder), len(recvs))
		return
	}
	if nilSent != prog.NilSent || nilGot != nilSent {
		rc.Violate("conservation/nil-payload", "%d nil payloads were sent (expected %d) and %d were delivered by the ranging receivers", nilSent, prog.NilSent, nilGot)
		return
	}
	wantTagged := 0
	for _, f := range prog.PSpawn {
		if f == 3 || f == 4 || f == 10 { // (form 10: the tag is reported by a deferred closure)
			wantTagged++
		}
	}
	if tagged != wantTagged {
		rc.Violate("spawn/closure-identity", "%d closure-made producers reported their tag, expected %d", tagged, wantTagged)
		return
	}
	// 2. per-sender order within each receiver's sequence
	for rid, vs := range perRecv {
		last := map[int]int{}
		for _, v := range vs {
			id := v/100000 - 1
			seq := v % 100000
			if prev, ok := last[id]; ok && seq < prev {
				rc.Violate("order/per-sender", "receiver %d saw sender %d's message %d after %d", rid, id, seq, prev)
				return
			}
			last[id] = seq
		}
	}
	// 3. close: every receiver loop ended (rend seen) — implied by termination,
	// checked explicitly: one nil per receiver, after the close was invoked.
	nils := map[int]int{}
	for _, r := range recvs {
		if r.isNil {
			nils[r.rid]++
			if closeInv >= 0 && r.ret < closeInv {
				rc.Violate("close/early-nil", "receiver %d observed end-of-channel (stamp %d) before close was invoked (stamp %d)", r.rid, r.ret, closeInv)
				return
			}
		}
	}
	for i := 0; i < prog.R; i++ {
		if nils[i] != 1 {
			rc.Violate("close/range-end", "receiver %d ended %d times", i, nils[i])
			return
		}
	}
	// 5. wait() values
	for i := 0; i < prog.S; i++ {
		if prog.PSpawn[i] != 2 && prog.PSpawn[i] != 5 && prog.PSpawn[i] != 7 && prog.PSpawn[i] != 8 && prog.PSpawn[i] != 9 {
			if v, ok := waitedP[i]; !ok || v != int64(i*7+prog.M[i]) {
				rc.Violate("wait/value", "producer %d wait() gave %v (present=%v), expected %d", i, v, ok, i*7+prog.M[i])
				return
			}
		}
	}
	for i := 0; i < prog.R; i++ {
		if prog.CSpawn[i] != 2 {
			if v, ok := waitedC[i]; !ok || v != int64(len(perRecv[i])) {
				rc.Violate("wait/value", "consumer %d wait() gave %v (present=%v), expected %d", i, v, ok, len(perRecv[i]))
				return
			}
		}
	}
	want := `[[5, 6], "caught:boom 100% at 77", "error", "soft 4"]`
	if prog.DeepThread {
		want = `[[5, 6], "caught:boom 100% at 77", "error", "soft 4", "caught-overflow"]`
	}
	if out.Result == nil || safeInspect(out.Result) != want {
		rc.Violate("wait/result-or-error", "final value %s, expected %s", out.String(), want)
		return
	}
	// 4. linearizability against the FIFO model
	var ops []porcupine.Operation
	for _, r := range sendOrder {
		ops = append(ops, porcupine.Operation{ClientId: r.id, Input: qIn{Op: 0, V: valueOf(r.id, r.seq)}, Call: r.inv, Output: qOut{}, Return: r.ret})
	}
	for _, r := range recvs {
		cid := 10 + r.rid
		if r.rid == 99 {
			cid = 9
		}
		ops = append(ops, porcupine.Operation{ClientId: cid, Input: qIn{Op: 1}, Call: r.inv, Output: qOut{V: r.v, Nil: r.isNil}, Return: r.ret})
	}
	if closeInv >= 0 && closeRet >= 0 {
		ops = append(ops, porcupine.Operation{ClientId: 8, Input: qIn{Op: 2}, Call: closeInv, Output: qOut{}, Return: closeRet})
	}
	if prog.NilEvery > 0 {
		rc.Hit("linearizability_skipped_nil_payloads")
	} else if prog.Quiet {
		rc.Hit("linearizability_skipped_quiet_consumers")
	} else if len(ops) <= 60 {
		res := porcupine.CheckOperationsTimeout(queueModel, ops, 30*time.Second)
		switch res {
		case porcupine.Illegal:
			rc.Violate("linearizability/fifo", "channel history (%d ops) is not linearizable against a FIFO queue with nil-after-close", len(ops))
			return
		case porcupine.Unknown:
			rc.Inconclusive = "porcupine_unknown"
		default:
			rc.Hit("linearizability_checked")
		}
	} else {
		rc.Hit("linearizability_skipped_long_history")
	}
	rc.Count("messages", prog.Total)
}
