package checks

import (
	"bytes"
	"context"
	"fmt"
	"io/fs"
	"log"
	goos "os"
	"reflect"
	"regexp"
	"sort"
	"strings"
	"sync"
	"syscall"
	"testing/fstest"

	"github.com/risor-io/risor"
	"github.com/risor-io/risor/builtins"
	"github.com/risor-io/risor/compiler"
	"github.com/risor-io/risor/importer"
	modFilepath "github.com/risor-io/risor/modules/filepath"
	modFmt "github.com/risor-io/risor/modules/fmt"
	modOs "github.com/risor-io/risor/modules/os"
	"github.com/risor-io/risor/object"
	ros "github.com/risor-io/risor/os"
	"github.com/risor-io/risor/parser"
	"github.com/risor-io/risor/verif/fw"
	"github.com/risor-io/risor/verif/sim"
	"github.com/risor-io/risor/verif/simos"
	"github.com/risor-io/risor/vm"
)

// ---------------------------------------------------------------------------
// G-os: one or more call templates per OS-touching callable

type osTemplate struct {
	Name     string   // "os.getenv", "builtin.cat", "file.read", ...
	Covers   string   // attribute this template covers ("os.getenv", "filepath.abs", "fmt.printf", "builtin.cat", "file.read")
	Body     string   // probe body; must `return` a string
	Contains []string // sim-only sentinels the fault-free result must contain
	Methods  []string // SimOS methods that must appear in the call log
	Failable bool     // the first OS call can return an error -> under injected faults the probe must not succeed
	Pure     bool     // must not touch the OS at all
	Stdout   string   // text that must land in the simulated stdout
	Stderr   string
	ExitCode int // expected recorded exit request (-1 none)
	// deferred form (context "defer-after-cancel"): DeferPre runs first, then
	// the single builtin call Deferred is registered with defer, the function
	// spins, and the evaluation is cancelled; the deferred call runs during the
	// unwind and must be served by the supplied OS
	// VosContains: what the result must contain when risor's own VirtualOS (two
	// mounts over in-memory filesystems) is the host OS; nil = not judged there
	VosContains []string
	DeferPre     string
	Deferred     string
	DeferMethods []string
	DeferStdout  string
}

// c12Deferred gives some templates a deferred form.
var c12Deferred = map[string]osTemplate{
	"builtin.print":  {Deferred: `print("DEFER-PRINT-MARK")`, DeferMethods: []string{"Std.Write"}, DeferStdout: "DEFER-PRINT-MARK"},
	"builtin.printf": {Deferred: `printf("DEFER-%d-MARK", 7)`, DeferMethods: []string{"Std.Write"}, DeferStdout: "DEFER-7-MARK"},
	"fmt.println":    {Deferred: `fmt.println("DEFER-FMT-MARK")`, DeferMethods: []string{"Std.Write"}, DeferStdout: "DEFER-FMT-MARK"},
	"fmt.printf":     {Deferred: `fmt.printf("DEFERF-%s-MARK", "x")`, DeferMethods: []string{"Std.Write"}, DeferStdout: "DEFERF-x-MARK"},
	"os.setenv":      {Deferred: `os.setenv("SIMKEY", "set-by-defer")`, DeferMethods: []string{"Setenv"}},
	"builtin.setenv": {Deferred: `setenv("SIMKEY2", "d2")`, DeferMethods: []string{"Setenv"}},
	"os.unsetenv":    {Deferred: `os.unsetenv("VERIF_SENTINEL")`, DeferMethods: []string{"Unsetenv"}},
	"os.remove":      {Deferred: `os.remove("a.txt")`, DeferMethods: []string{"Remove"}},
	"os.mkdir":       {Deferred: `os.mkdir("deferdir")`, DeferMethods: []string{"Mkdir"}},
	"os.rename":      {Deferred: `os.rename("a.txt", "z.txt")`, DeferMethods: []string{"Rename"}},
	"os.write_file":  {Deferred: `os.write_file("dw.txt", "written-by-defer")`, DeferMethods: []string{"WriteFile"}},
	"os.chdir":       {Deferred: `os.chdir("/simroot/work/dir")`, DeferMethods: []string{"Chdir"}},
	"file.close":     {DeferPre: `f := os.open("a.txt")`, Deferred: `f.close()`, DeferMethods: []string{"Open", "File.Close"}},
	"file.write":     {DeferPre: `f := os.create("fw.txt")`, Deferred: `f.write("deferred-write")`, DeferMethods: []string{"Create", "File.Write"}},
	"os.stdout":      {DeferPre: `so := os.stdout`, Deferred: `so.write("DEFER-OUT-MARK")`, DeferMethods: []string{"Std.Write"}, DeferStdout: "DEFER-OUT-MARK"},
}

func osTemplates() []osTemplate {
	T := func(name, body string, contains []string, methods []string, failable bool) osTemplate {
		covers := name
		if i := strings.IndexByte(name, '#'); i >= 0 {
			covers = name[:i]
		}
		return osTemplate{Name: name, Covers: covers, Body: body, Contains: contains, Methods: methods, Failable: failable, ExitCode: -1}
	}
	P := func(name, body string, contains []string) osTemplate {
		return osTemplate{Name: name, Covers: name, Body: body, Contains: contains, Pure: true, ExitCode: -1}
	}
	ts := []osTemplate{
		T("os.args", `return string(os.args())`, []string{"sim-arg0", "sim-arg1"}, []string{"Args"}, false),
		T("os.chdir", `os.chdir("/simroot/work/dir"); return os.getwd()`, []string{"/simroot/work/dir"}, []string{"Chdir", "Getwd"}, true),
		T("os.create", `f := os.create("new.txt"); f.write("hello-sim"); f.close(); return string(os.read_file("new.txt"))`, []string{"hello-sim"}, []string{"Create", "File.Write", "File.Close", "ReadFile"}, true),
		T("os.current_user", `return string(os.current_user())`, []string{"simuser", "31337"}, []string{"CurrentUser"}, true),
		T("os.environ", `return string(sorted(os.environ()))`, []string{"VERIF_SENTINEL=sim-value", "SIMONLY=only-in-sim"}, []string{"Environ"}, false),
		T("os.getenv", `return os.getenv("VERIF_SENTINEL") + "|" + os.getenv("SIMONLY") + "|" + os.getenv("REALONLY")`, []string{"sim-value|only-in-sim|"}, []string{"Getenv"}, false),
		T("os.getpid", `return string(os.getpid())`, []string{"424242"}, []string{"Getpid"}, false),
		T("os.getuid", `return string(os.getuid())`, []string{"31337"}, []string{"Getuid"}, false),
		T("os.getwd", `return os.getwd()`, []string{"/simroot/work"}, []string{"Getwd"}, true),
		T("os.hostname", `return os.hostname()`, []string{"sim-host"}, []string{"Hostname"}, true),
		T("os.lookup_gid", `return string(os.lookup_gid("4242"))`, []string{"simgroup"}, []string{"LookupGid"}, true),
		T("os.lookup_group", `return string(os.lookup_group("simgroup"))`, []string{"4242"}, []string{"LookupGroup"}, true),
		T("os.lookup_uid", `return string(os.lookup_uid("31337"))`, []string{"simuser"}, []string{"LookupUid"}, true),
		T("os.lookup_user", `return string(os.lookup_user("simuser"))`, []string{"Sim User"}, []string{"LookupUser"}, true),
		T("os.mkdir_all", `os.mkdir_all("x/y/z"); return string(os.stat("x/y/z").is_dir)`, []string{"true"}, []string{"MkdirAll", "Stat"}, true),
		T("os.mkdir_temp", `return os.mkdir_temp("", "pat-")`, []string{"/simroot/tmp/pat-simtmp"}, []string{"MkdirTemp"}, true),
		T("os.mkdir", `os.mkdir("newdir"); return string(os.stat("newdir").is_dir)`, []string{"true"}, []string{"Mkdir", "Stat"}, true),
		T("os.open", `f := os.open("a.txt"); d := string(f.read()); f.close(); return d`, []string{"alpha-sim"}, []string{"Open", "File.Read", "File.Close"}, true),
		T("os.read_dir", `return string(os.read_dir(".").map(func(e) { return e.name }))`, []string{"a.txt", "dir"}, []string{"ReadDir"}, true),
		T("os.read_dir#noarg", `return string(os.read_dir().map(func(e) { return e.name }))`, []string{"a.txt", "dir"}, []string{"Getwd", "ReadDir"}, true),
		T("os.read_file", `return string(os.read_file("a.txt"))`, []string{"alpha-sim"}, []string{"ReadFile"}, true),
		T("os.remove", `os.remove("a.txt"); return string(try(func() { os.stat("a.txt"); return "still-there" }, func(e) { return "gone-sim" }))`, []string{"gone-sim"}, []string{"Remove", "Stat"}, true),
		T("os.remove_all", `os.remove_all("dir"); return string(os.read_dir(".").map(func(e) { return e.name }))`, []string{"a.txt"}, []string{"RemoveAll", "ReadDir"}, true),
		T("os.rename", `os.rename("a.txt", "z.txt"); return string(os.read_file("z.txt"))`, []string{"alpha-sim"}, []string{"Rename", "ReadFile"}, true),
		T("os.setenv", `os.setenv("SIMKEY", "set-by-script"); return os.getenv("SIMKEY")`, []string{"set-by-script"}, []string{"Setenv", "Getenv"}, true),
		T("os.stat", `s := os.stat("a.txt"); return s.name + ":" + string(s.size)`, []string{"a.txt:20"}, []string{"Stat"}, true),
		T("os.symlink", `os.symlink("a.txt", "lnk"); return string(os.read_file("lnk"))`, []string{"alpha-sim"}, []string{"Symlink", "ReadFile"}, true),
		T("os.temp_dir", `return os.temp_dir()`, []string{"/simroot/tmp"}, []string{"TempDir"}, false),
		T("os.unsetenv", `os.unsetenv("VERIF_SENTINEL"); return "[" + os.getenv("VERIF_SENTINEL") + "]"`, []string{"[]"}, []string{"Unsetenv", "Getenv"}, true),
		T("os.user_cache_dir", `return os.user_cache_dir()`, []string{"/simroot/cache"}, []string{"UserCacheDir"}, true),
		T("os.user_config_dir", `return os.user_config_dir()`, []string{"/simroot/config"}, []string{"UserConfigDir"}, true),
		T("os.user_home_dir", `return os.user_home_dir()`, []string{"/simroot/home/simuser"}, []string{"UserHomeDir"}, true),
		T("os.write_file", `os.write_file("w.txt", "written-sim"); return string(os.read_file("w.txt"))`, []string{"written-sim"}, []string{"WriteFile", "ReadFile"}, true),
		T("os.stdin", `return string(os.stdin.read())`, []string{"sim-stdin-line1"}, []string{"Stdin", "Std.Read"}, false),
		{Name: "os.stdout", Covers: "os.stdout", Body: `os.stdout.write("OUT-MARK"); return "w"`, Methods: []string{"Stdout", "Std.Write"}, Stdout: "OUT-MARK", ExitCode: -1},
		{Name: "os.stderr", Covers: "os.stderr", Body: `os.stderr.write("ERR-MARK"); return "w"`, Methods: []string{"Stderr", "Std.Write"}, Stderr: "ERR-MARK", ExitCode: -1},
		{Name: "os.exit", Covers: "os.exit", Body: `os.exit(0); return "after-exit"`, Contains: []string{"after-exit"}, Methods: []string{"Exit"}, ExitCode: 0},
		{Name: "os.exit#3", Covers: "os.exit", Body: `os.exit(3); return "after-exit"`, Contains: []string{"exit(3)"}, Methods: []string{"Exit"}, ExitCode: 3},
		// argument variety and second uses of the same callable
		T("os.getenv#twice", `a := os.getenv("SIMONLY"); os.setenv("SIMONLY", "changed-by-script"); return a + "|" + os.getenv("SIMONLY")`, []string{"only-in-sim|changed-by-script"}, []string{"Getenv", "Setenv"}, false),
		T("os.read_file#abs", `return string(os.read_file("/simroot/work/dir/sub/c.txt"))`, []string{"gamma-sim"}, []string{"ReadFile"}, true),
		T("os.read_file#twice", `a := string(os.read_file("a.txt")); os.write_file("a.txt", "rewritten-sim"); return a + "|" + string(os.read_file("a.txt"))`, []string{"alpha-sim", "|rewritten-sim"}, []string{"ReadFile", "WriteFile"}, true),
		T("os.write_file#perm", `os.write_file("/simroot/tmp/p.txt", "perm-sim", 384); return string(os.read_file("/simroot/tmp/p.txt"))`, []string{"perm-sim"}, []string{"WriteFile"}, true),
		T("os.mkdir#perm", `os.mkdir("/simroot/work/permdir", 448); return string(os.stat("/simroot/work/permdir").is_dir)`, []string{"true"}, []string{"Mkdir"}, true),
		T("os.mkdir_all#perm", `os.mkdir_all("/simroot/deep/er/still", 488); return string(os.stat("/simroot/deep/er").is_dir)`, []string{"true"}, []string{"MkdirAll"}, true),
		T("os.read_dir#abs", `return string(os.read_dir("/simroot/work/dir").map(func(e) { return e.name }))`, []string{"b.txt", "sub"}, []string{"ReadDir"}, true),
		T("os.stat#dir", `s := os.stat("dir"); return s.name + ":" + string(s.is_dir)`, []string{"dir:true"}, []string{"Stat"}, true),
		T("os.rename#dir", `os.rename("dir", "moved"); return string(os.read_file("moved/b.txt"))`, []string{"beta-sim"}, []string{"Rename", "ReadFile"}, true),
		T("os.chdir#relative-then-read", `os.chdir("dir"); os.chdir("sub"); return os.getwd() + ":" + string(os.read_file("c.txt"))`, []string{"/simroot/work/dir/sub:gamma-sim"}, []string{"Chdir", "ReadFile"}, true),
		T("os.create#then-open", `f := os.create("dir/n.txt"); f.write("one-sim"); f.close(); g := os.open("dir/n.txt"); d := string(g.read()); g.close(); return d`, []string{"one-sim"}, []string{"Create", "Open"}, true),
		T("os.lookup_user#twice", `a := os.lookup_user("simuser"); b := os.lookup_user("simuser"); return string(a) + string(b)`, []string{"Sim User"}, []string{"LookupUser"}, true),
		T("os.hostname#twice", `return os.hostname() + "|" + os.hostname()`, []string{"sim-host|sim-host"}, []string{"Hostname"}, true),
		T("os.environ#after-set", `os.setenv("ZZ_SIM", "1"); return string(sorted(os.environ()))`, []string{"ZZ_SIM=1", "SIMONLY=only-in-sim"}, []string{"Setenv", "Environ"}, true),
		T("filepath.abs#dotdot", `return filepath.abs("dir/../rel2/y.txt")`, []string{"/simroot/work/rel2/y.txt"}, []string{"Getwd"}, true),
		T("filepath.abs#already-abs", `return filepath.abs("/already/abs.txt")`, []string{"/already/abs.txt"}, nil, false),
		T("filepath.walk_dir#abs", `names := []; filepath.walk_dir("/simroot/work", func(p, d, e) { names.append(p) }); return string(names)`, []string{"/simroot/work/a.txt", "/simroot/work/dir/sub/c.txt"}, []string{"WalkDir"}, true),
		T("builtin.cat#abs", `return string(cat("/simroot/work/a.txt"))`, []string{"alpha-sim"}, []string{"ReadFile"}, true),
		T("builtin.cp#into-dir", `cp("a.txt", "dir/a-copy.txt"); return string(ls("dir").map(func(e) { return e.name }))`, []string{"a-copy.txt"}, []string{"ReadFile", "WriteFile", "ReadDir"}, true),
		T("builtin.ls#noarg", `return string(ls().map(func(e) { return e.name }))`, []string{"a.txt", "dir"}, []string{"ReadDir"}, true),
		{Name: "builtin.print#multi", Covers: "builtin.print", Body: `print("A-MARK"); print("B-MARK", [1, 2], {"k": 1}); return "p"`, Methods: []string{"Stdout", "Std.Write"}, Stdout: "B-MARK [1, 2] {\"k\": 1}\n", ExitCode: -1},
		T("file.write#append-seek", `f := os.create("ws.txt"); f.write("12345"); f.seek(1, 0); f.write("ab"); f.close(); return string(os.read_file("ws.txt"))`, []string{"1ab45"}, []string{"Create", "File.Write", "File.Seek"}, true),
		T("file.read#buffer-twice", `f := os.open("a.txt"); a := string(f.read(byte_slice([0, 0, 0, 0, 0]))); b := string(f.read(byte_slice([0, 0, 0, 0]))); f.close(); return a + "|" + b`, []string{"alpha|-sim"}, []string{"Open", "File.Read"}, true),
		// shell-style builtins
		T("builtin.cat", `return string(cat("a.txt", "dir/b.txt"))`, []string{"alpha-sim", "beta-sim"}, []string{"ReadFile"}, true),
		T("builtin.cd", `cd("dir"); return os.getwd()`, []string{"/simroot/work/dir"}, []string{"Chdir"}, true),
		T("builtin.cp", `cp("a.txt", "copy.txt"); return string(os.read_file("copy.txt"))`, []string{"alpha-sim"}, []string{"ReadFile", "WriteFile"}, true),
		T("builtin.getenv", `return getenv("VERIF_SENTINEL")`, []string{"sim-value"}, []string{"Getenv"}, false),
		T("builtin.ls", `return string(ls("dir").map(func(e) { return e.name }))`, []string{"b.txt", "sub"}, []string{"ReadDir"}, true),
		T("builtin.setenv", `setenv("SIMKEY2", "v2"); return getenv("SIMKEY2")`, []string{"v2"}, []string{"Setenv"}, true),
		T("builtin.unsetenv", `unsetenv("SIMONLY"); return "[" + getenv("SIMONLY") + "]"`, []string{"[]"}, []string{"Unsetenv"}, true),
		T("builtin.open", `f := open("dir/b.txt"); d := string(f.read()); f.close(); return d`, []string{"beta-sim"}, []string{"Open", "File.Read"}, true),
		{Name: "builtin.print", Covers: "builtin.print", Body: `print("PRINT-MARK", 42); return "p"`, Methods: []string{"Stdout", "Std.Write"}, Stdout: "PRINT-MARK 42\n", ExitCode: -1},
		{Name: "builtin.printf", Covers: "builtin.printf", Body: `printf("PF-%d-MARK", 7); return "p"`, Methods: []string{"Stdout", "Std.Write"}, Stdout: "PF-7-MARK", ExitCode: -1},
		// fmt module
		{Name: "fmt.println", Covers: "fmt.println", Body: `fmt.println("FMT-MARK"); return "p"`, Methods: []string{"Stdout", "Std.Write"}, Stdout: "FMT-MARK\n", ExitCode: -1},
		{Name: "fmt.printf", Covers: "fmt.printf", Body: `fmt.printf("FMTF-%s-MARK", "x"); return "p"`, Methods: []string{"Stdout", "Std.Write"}, Stdout: "FMTF-x-MARK", ExitCode: -1},
		P("fmt.sprintf", `return fmt.sprintf("%d-%s", 5, "s")`, []string{"5-s"}),
		P("fmt.errorf", `return string(fmt.errorf("e-%d", 1))`, []string{"e-1"}),
		P("builtin.sprintf", `return sprintf("%d", 9)`, []string{"9"}),
		P("builtin.errorf", `return string(errorf("be-%d", 2))`, []string{"be-2"}),
		// filepath module
		T("filepath.abs", `return filepath.abs("rel/x.txt")`, []string{"/simroot/work/rel/x.txt"}, []string{"Getwd"}, true),
		// paths that also exist on the real machine, where they are symbolic links
		// (/bin -> usr/bin on merged-/usr systems): the simulated machine's /bin
		// is an ordinary directory and is what must be walked, read and listed
		T("filepath.walk_dir#real-symlink-name", `os.mkdir_all("/bin"); os.write_file("/bin/simtool", "t"); names := []; filepath.walk_dir("/bin", func(p, d, e) { names.append(p) }); return string(names)`, []string{"\"/bin/simtool\""}, []string{"WalkDir"}, true),
		T("os.read_dir#real-symlink-name", `os.mkdir_all("/lib"); os.write_file("/lib/simlib", "t"); return string(os.read_dir("/lib").map(func(e) { return e.name }))`, []string{"simlib"}, []string{"ReadDir"}, true),
		T("os.stat#real-symlink-name", `os.mkdir_all("/sbin"); return string(os.stat("/sbin").is_dir) + ":" + string(os.stat("/sbin").name)`, []string{"true:sbin"}, []string{"Stat"}, true),
		// OS-touching builtins handed to list.map as the function
		T("builtin.getenv#mapped", `return string(["VERIF_SENTINEL", "SIMONLY"].map(getenv))`, []string{"sim-value", "only-in-sim"}, []string{"Getenv"}, false),
		T("os.getenv#mapped", `return string(["VERIF_SENTINEL", "REALONLY"].map(os.getenv))`, []string{"sim-value"}, []string{"Getenv"}, false),
		T("builtin.cat#mapped", `return string(["a.txt"].map(cat))`, []string{"alpha-sim"}, []string{"ReadFile"}, true),
		// cp of a file whose name also exists (with another mode) in the real
		// working directory of the process
		T("builtin.cp#real-name", `os.write_file("real-sentinel.txt", "virt-src"); cp("real-sentinel.txt", "copied.txt"); return string(os.stat("copied.txt").mode) + ":" + string(os.read_file("copied.txt"))`, []string{"-rw-r--r--:virt-src"}, []string{"WriteFile", "ReadFile"}, true),
		// directories whose names also exist on the real machine
		{Name: "os.mkdir_all#real-name", Covers: "os.mkdir_all", Body: `os.mkdir_all("/tmp/simd/sub"); os.mkdir_all("/realsub/inner"); return string(os.stat("/tmp/simd/sub").is_dir) + ":" + string(os.stat("/tmp").is_dir) + ":" + string(os.stat("/realsub").is_dir)`, Contains: []string{"true:true:true"}, VosContains: []string{"true:true:true"}, Methods: []string{"MkdirAll", "Stat"}, Failable: true, ExitCode: -1},
		// a file that also exists on the real machine, renamed to another
		// directory (another mount, under the VirtualOS, which refuses that)
		{Name: "os.rename#real-name", Covers: "os.rename", Body: `os.mkdir_all("` + c12RealDir() + `"); os.mkdir_all("/data"); os.write_file("` + c12RealDir() + `/real-sentinel.txt", "virt-content"); try(func() { os.rename("` + c12RealDir() + `/real-sentinel.txt", "/data/moved.txt") }, func(e) { return 0 }); return string(try(func() { return os.read_file("/data/moved.txt") }, func(e) { return "no-file" }))`, Contains: []string{"virt-content"}, VosContains: []string{"no-file"}, Methods: []string{"Rename"}, Failable: true, ExitCode: -1},
		// a directory whose path is a regular file on the real machine
		{Name: "os.chdir#real-name", Covers: "os.chdir", Body: `os.mkdir_all("` + c12RealDir() + `/real-sentinel.txt"); os.chdir("` + c12RealDir() + `/real-sentinel.txt"); return "in-place:" + string(os.getwd() == "` + c12RealDir() + `/real-sentinel.txt")`, Contains: []string{"in-place:true"}, VosContains: []string{"in-place:true"}, Methods: []string{"MkdirAll", "Chdir"}, Failable: true, ExitCode: -1},
		// a file object the host made itself (with its own context, which
		// carries no OS) and handed to the script
		{Name: "file.stat#host-made-closed", Covers: "file.stat", Body: `hostfile.close(); return string(try(func() { return hostfile.stat().size }, func(e) { return "stat-refused" }))`, Contains: []string{"stat-refused"}, Methods: []string{"File.Close"}, Failable: true, ExitCode: -1},
		T("filepath.walk_dir", `names := []; filepath.walk_dir("dir", func(p, d, e) { names.append(p) }); return string(names)`, []string{"dir/b.txt", "dir/sub/c.txt"}, []string{"WalkDir"}, true),
		P("filepath.base", `return filepath.base("/a/b/c.txt")`, []string{"c.txt"}),
		P("filepath.clean", `return filepath.clean("/a/../b/./c")`, []string{"/b/c"}),
		P("filepath.dir", `return filepath.dir("/a/b/c.txt")`, []string{"/a/b"}),
		P("filepath.ext", `return filepath.ext("x.tar.gz")`, []string{".gz"}),
		P("filepath.is_abs", `return string(filepath.is_abs("/x"))`, []string{"true"}),
		P("filepath.join", `return filepath.join("a", "b", "c")`, []string{"a/b/c"}),
		P("filepath.match", `return string(filepath.match("*.txt", "a.txt"))`, []string{"true"}),
		P("filepath.rel", `return filepath.rel("/a", "/a/b/c")`, []string{"b/c"}),
		P("filepath.split_list", `return string(filepath.split_list("/a:/b"))`, []string{"/a", "/b"}),
		P("filepath.split", `return string(filepath.split("/a/b.txt"))`, []string{"b.txt"}),
		// file object methods
		T("file.name", `f := os.open("a.txt"); n := f.name(); f.close(); return n`, []string{"a.txt"}, []string{"Open"}, true),
		T("file.stat", `f := os.open("a.txt"); s := f.stat(); f.close(); return s.name + ":" + string(s.size)`, []string{"a.txt:20"}, []string{"Open", "File.Stat"}, true),
		T("file.position", `f := os.open("a.txt"); f.read(byte_slice([0, 0, 0])); p := f.position; f.close(); return string(p)`, []string{"3"}, []string{"Open", "File.Read", "File.Seek"}, true),
		T("file.read#slice", `f := os.open("a.txt"); b := f.read(byte_slice([0, 0, 0, 0, 0])); f.close(); return string(b)`, []string{"alpha"}, []string{"Open", "File.Read"}, true),
		T("file.write", `f := os.create("fw.txt"); n := f.write("file-write-sim"); f.close(); return string(n) + ":" + string(os.read_file("fw.txt"))`, []string{"14:file-write-sim"}, []string{"Create", "File.Write"}, true),
		T("file.close", `f := os.open("a.txt"); f.close(); return string(try(func() { f.read(); return "read-after-close" }, func(e) { return "closed-sim" }))`, []string{"closed-sim"}, []string{"Open", "File.Close"}, true),
		T("file.seek", `f := os.open("a.txt"); f.seek(6, 0); b := f.read(byte_slice([0, 0, 0])); f.close(); return string(b)`, []string{"sim"}, []string{"Open", "File.Seek", "File.Read"}, true),
		T("file.read_lines", `f := os.open("a.txt"); l := f.read_lines(); f.close(); return string(l)`, []string{"alpha-sim", "line2-sim"}, []string{"Open", "File.Read"}, true),
		T("file.iter", `f := os.open("a.txt"); ls := []; for _, line := range f { ls.append(line) }; f.close(); return string(ls)`, []string{"alpha-sim", "line2-sim"}, []string{"Open", "File.Read"}, true),
	}
	for i := range ts {
		if d, ok := c12Deferred[ts[i].Name]; ok {
			ts[i].DeferPre, ts[i].Deferred, ts[i].DeferMethods, ts[i].DeferStdout = d.DeferPre, d.Deferred, d.DeferMethods, d.DeferStdout
		}
	}
	return ts
}

// attribute lists are read from the live module objects, so that a function
// added to a module without a template is reported as uncovered.
func moduleAttrs(m *object.Module) []string {
	v := reflect.ValueOf(m).Elem().FieldByName("builtins")
	var names []string
	for _, k := range v.MapKeys() {
		names = append(names, k.String())
	}
	sort.Strings(names)
	return names
}

func c12Uncovered(ts []osTemplate) []string {
	covered := map[string]bool{}
	for _, t := range ts {
		covered[t.Covers] = true
	}
	var missing []string
	for _, n := range moduleAttrs(modOs.Module()) {
		if strings.HasPrefix(n, "err_") {
			continue // error constants, not callables
		}
		if !covered["os."+n] {
			missing = append(missing, "os."+n)
		}
	}
	for _, n := range moduleAttrs(modFilepath.Module()) {
		if !covered["filepath."+n] {
			missing = append(missing, "filepath."+n)
		}
	}
	for _, n := range moduleAttrs(modFmt.Module()) {
		if !covered["fmt."+n] {
			missing = append(missing, "fmt."+n)
		}
	}
	for n := range modOs.Builtins() {
		if !covered["builtin."+n] {
			missing = append(missing, "builtin."+n)
		}
	}
	for n := range modFmt.Builtins() {
		if !covered["builtin."+n] {
			missing = append(missing, "builtin."+n)
		}
	}
	// file object methods
	f := object.NewFile(context.Background(), simos.New().Stdin(), "/x")
	for _, n := range []string{"name", "stat", "position", "read", "write", "close", "seek", "read_lines"} {
		if _, ok := f.GetAttr(n); ok && !covered["file."+n] {
			missing = append(missing, "file."+n)
		}
	}
	sort.Strings(missing)
	return missing
}

var c12Contexts = []string{"top", "spawn", "go-chan", "clone-call", "module-body", "module-func", "callback", "defer", "vm-reuse", "vm-reuse-spawn", "vm-reuse-call", "vm-reuse-os-kept", "nested-eval", "defer-after-cancel", "after-failed-output", "clone-call-empty"}
var c12Routes = []string{"WithOS", "ctx", "ctx-layered", "vos"}
var c12Faults = []string{"none", "fail-first", "fail-all", "relative-cwd", "fail-second"}

// c12Multiplier returns a multiplier coprime to total.
func c12Multiplier(total int) int {
	gcd := func(a, b int) int {
		for b != 0 {
			a, b = b, a%b
		}
		return a
	}
	for _, m := range []int{7919, 104729, 1299709, 15485863, 1} {
		if gcd(m, total) == 1 {
			return m
		}
	}
	return 1
}

var c12MarkRe = regexp.MustCompile(`[A-Za-z0-9-]*MARK`)

// c12ForeignOutput looks for output markers in the simulated stdout/stderr that
// this template cannot have produced (text of another evaluation), or that
// appear more often than the template prints them.
func c12ForeignOutput(t osTemplate, output string) string {
	count := func(text string) map[string]int {
		m := map[string]int{}
		for _, tok := range c12MarkRe.FindAllString(text, -1) {
			m[tok]++
		}
		return m
	}
	src := count(t.Body + " " + t.DeferPre + " " + t.Deferred)
	exp := count(t.Stdout + " " + t.Stderr + " " + t.DeferStdout)
	for tok, n := range count(output) {
		allowed := src[tok]
		if exp[tok] > allowed {
			allowed = exp[tok]
		}
		if n > allowed {
			return fmt.Sprintf("%q x%d (this evaluation prints it %d time(s))", tok, n, allowed)
		}
	}
	return ""
}

// c12RealDir is the real working directory of the worker process (a scratch
// directory holding real-sentinel.txt once the first run has set it up).
func c12RealDir() string {
	wd, err := goos.Getwd()
	if err != nil {
		return "/nonexistent-real-dir"
	}
	return wd
}

func c12Total() int { return len(osTemplates()) * len(c12Contexts) * len(c12Routes) * len(c12Faults) }

func init() {
	fw.Register(&fw.Scenario{
		Property: "C12",
		Name:     "os-mediation",
		Run:      runC12,
		Level:    "fault_enumeration",
		Rule: "one run = one (OS-touching callable template) x (execution context: top level, spawned goroutine, go statement, vm.Clone+Call from a second host task, imported module body, imported module function, callback inside a builtin, deferred call, and a VM reused through risor.WithVM: later evaluation, goroutine spawned in a later evaluation, vm.Call after a later evaluation) " +
			"x (supply route: risor.WithOS / OS in the context) x (fault: none, first failable OS call fails, every failable OS call fails) against a simulated OS whose contents are disjoint from the real machine's; " +
			"the product is enumerated exhaustively by run index in both tiers (the thorough tier repeats it 8 times under other schedules, errno values and torn writes); spawned/cloned contexts run under the seeded scheduler; " +
			"non-trivial = the probe reached the simulated OS at least once or was expected not to; distinct = distinct (template, context, route, fault) tuples",
		Real: []string{"modules/os", "modules/filepath", "modules/fmt", "object/file.go", "builtins", "vm (initContext, getOS, Clone, cloneCallAsync)", "importer.FSImporter", "risor options"},
		Stub: []string{"simos.SimOS (in-memory tree, env, identity, stdio, fault plan, call log)", "scheduler (sim)", "module source served from an in-memory fs.FS"},
		Assumptions: []string{
			"the real process runs in a scratch working directory with REALONLY / VERIF_SENTINEL=real-value in its environment; tripwires compare them before and after every run",
			"templates exist for every attribute found in the live module objects; attributes without one are listed as uncovered in this file",
		},
		Total: func(tier string) int {
			if tier == "thorough" {
				return 8 * c12Total()
			}
			return c12Total()
		},
	})
}

var c12RealOnce sync.Once

func dirOf(p string) string {
	if i := strings.LastIndexByte(p, '/'); i > 0 {
		return p[:i]
	}
	return "."
}

// realSnapshot captures what a bypass would disturb on the real machine.
func realSnapshot() string {
	wd, _ := goos.Getwd()
	var names []string
	if ents, err := goos.ReadDir(wd); err == nil {
		for _, e := range ents {
			names = append(names, e.Name())
		}
	}
	env := goos.Getenv("VERIF_SENTINEL") + "|" + goos.Getenv("REALONLY") + "|" + goos.Getenv("SIMKEY") + "|" + goos.Getenv("SIMKEY2") + "|" + goos.Getenv("SIMONLY")
	return wd + "\n" + strings.Join(names, ",") + "\n" + env
}

func c12Source(t osTemplate, context string) (main string, modules map[string]string) {
	probe := "func probe() {\n" + strings.ReplaceAll(t.Body, "; ", "\n") + "\n}\n"
	handler := `func(e) { return "ERR:" + string(e) }`
	switch context {
	case "top", "after-failed-output":
		return probe + "try(probe, " + handler + ")\n", nil
	case "spawn":
		return probe + "t := spawn(func() { return try(probe, " + handler + ") })\nt.wait()\n", nil
	case "go-chan":
		return probe + "c := chan(1)\ngo func() { r := try(probe, " + handler + "); c <- r }()\n<-c\n", nil
	case "clone-call", "clone-call-empty":
		return probe + "func entry() { return try(probe, " + handler + ") }\n\"defined\"\n", nil
	case "module-body":
		return "import pm\npm.body_result\n", map[string]string{"pm.risor": probe + "body_result := try(probe, " + handler + ")\n"}
	case "module-func":
		return "import pm\ntry(pm.probe, " + handler + ")\n", map[string]string{"pm.risor": probe}
	case "vm-reuse", "vm-reuse-os-kept", "nested-eval":
		return probe + "try(probe, " + handler + ")\n", nil
	case "vm-reuse-spawn":
		return probe + "t := spawn(func() { return try(probe, " + handler + ") })\nt.wait()\n", nil
	case "vm-reuse-call":
		return probe + "func entry() { return try(probe, " + handler + ") }\n\"defined\"\n", nil
	case "callback":
		return probe + "[1].map(func(x) { return try(probe, " + handler + ") })[0]\n", nil
	case "defer-after-cancel":
		if t.Deferred == "" {
			return "", nil
		}
		return "func d() {\n" + t.DeferPre + "\ndefer " + t.Deferred + "\nx := 0\nfor { x++ }\n}\nd()\n", nil
	case "defer":
		return probe + "result := \"unset\"\nfunc d() { defer func() { result = try(probe, " + handler + ") }(); return 0 }\nd()\nresult\n", nil
	}
	panic("unknown context " + context)
}

func c12Globals() map[string]any {
	g := map[string]any{}
	for k, v := range builtins.Builtins() {
		g[k] = v
	}
	for k, v := range modFmt.Builtins() {
		g[k] = v
	}
	for k, v := range modOs.Builtins() {
		g[k] = v
	}
	g["os"] = modOs.Module()
	g["filepath"] = modFilepath.Module()
	g["fmt"] = modFmt.Module()
	return g
}

func runC12(rc *fw.RunCtx) {
	ts := osTemplates()
	total := c12Total()
	// index -> tuple. Quick tier: a seeded sample of the product (the driver
	// hands out indices; we map them through a seeded stride so that different
	// seeds cover different subsets). Thorough: index modulo the product.
	// consecutive indices (and the indices one worker process gets, which are a
	// fixed stride apart) are scattered over the product by a bijection, so
	// that one process sees all fault modes, routes and contexts interleaved:
	// state that survives in the process from one evaluation to the next (a
	// pool, a cache) is then exercised across different configurations
	idx := int((int64(rc.Index%total) * int64(c12Multiplier(total))) % int64(total))
	round := rc.Index / total // thorough: every tuple again under other schedules and errnos
	fault := c12Faults[idx%len(c12Faults)]
	idx /= len(c12Faults)
	route := c12Routes[idx%len(c12Routes)]
	idx /= len(c12Routes)
	ctxName := c12Contexts[idx%len(c12Contexts)]
	idx /= len(c12Contexts)
	t := ts[idx%len(ts)]

	if t.ExitCode > 0 && ctxName == "go-chan" {
		// exit(n>0) raises a fatal evaluation error, which ends the goroutine
		// of a go statement silently; the combination has nothing to observe
		rc.Hit("skipped_combo_exit_in_go_statement")
		rc.Digest = sim.HashString(t.Name + "|" + ctxName + "|" + route + "|" + fault)
		rc.NonTrivial = true
		return
	}
	if ctxName == "defer-after-cancel" && t.Deferred == "" {
		rc.Hit("skipped_combo_no_deferred_form")
		rc.Digest = sim.HashString(t.Name + "|" + ctxName + "|" + route + "|" + fault)
		rc.NonTrivial = true
		return
	}
	if route == "vos" && fault != "none" {
		// risor's own VirtualOS has no fault plan; only the fault-free mode applies
		rc.Hit("skipped_combo_vos_with_fault_mode")
		rc.Digest = sim.HashString(t.Name + "|" + ctxName + "|" + route + "|" + fault)
		rc.NonTrivial = true
		return
	}
	if rc.Index == 0 {
		for _, u := range c12Uncovered(ts) {
			rc.Hit("uncovered_" + u)
		}
	}

	// make the real machine recognisable
	c12RealOnce.Do(func() {
		dir := goos.Getenv("VERIF_OUT")
		if dir == "" {
			dir = goos.TempDir()
		} else {
			dir = dirOf(dir)
		}
		scratch, err := goos.MkdirTemp(dir, "realcwd-")
		if err != nil {
			panic("harness: " + err.Error())
		}
		goos.WriteFile(scratch+"/real-sentinel.txt", []byte("only-real-file-content"), 0o644)
		goos.Mkdir(scratch+"/realsub", 0o755) // (a real directory, relative to the real working directory)
		goos.Chmod(scratch+"/real-sentinel.txt", 0o600)
		if err := goos.Chdir(scratch); err != nil {
			panic("harness: " + err.Error())
		}
	})
	goos.Setenv("VERIF_SENTINEL", "real-value")
	goos.Setenv("REALONLY", "only-real")
	goos.Setenv("HOME", "/home/only-real-home")
	before := realSnapshot()
	// the Go standard logger and the process-level standard error are part of
	// the real machine too
	var logTrip bytes.Buffer
	log.SetOutput(&logTrip)
	log.SetFlags(0)
	defer log.SetOutput(goos.Stderr)

	sos := simos.New()
	sos.Errno = []syscall.Errno{syscall.EIO, syscall.ENOSPC, syscall.EACCES, syscall.ENOENT, syscall.EEXIST}[round%5]
	sos.ShortWrite = round%2 == 1
	switch fault {
	case "fail-first":
		sos.FailAt[1] = true
	case "fail-all":
		sos.FailAll = true
	case "fail-second":
		// the first failable call succeeds, the one after it fails (a directory
		// listing that works followed by a failing lstat, an open followed by a
		// failing read, ...)
		sos.FailAt[2] = true
	}
	src, mods := c12Source(t, ctxName)

	sched := rc.Tape.Stream("sched")
	strat := sim.DrawStrategy(sched, 100)
	s := sim.New(sched, strat, 20000)
	if round%2 == 1 {
		sos.YieldFn = s.Yield // slow disk in odd rounds: OS calls are scheduling points
	}

	globals := c12Globals()
	// a file object the host opened on the simulated machine and wrapped
	// itself, with its own context (which carries no OS); the path exists on
	// the real machine as well
	globals["hostfile"] = object.Nil
	sos.Prepare(func() {
		sos.MkdirAll("/etc", 0o755)
		sos.WriteFile("/etc/passwd", []byte("sim-passwd-content"), 0o644)
		if hf, err := sos.Open("/etc/passwd"); err == nil {
			globals["hostfile"] = object.NewFile(context.Background(), hf, "/etc/passwd")
		}
	})
	var names []string
	for k := range globals {
		names = append(names, k)
	}
	opts := []risor.Option{risor.WithoutDefaultGlobals(), risor.WithGlobals(globals), risor.WithConcurrency()}
	if mods != nil {
		mfs := fstest.MapFS{}
		for name, text := range mods {
			mfs[name] = &fstest.MapFile{Data: []byte(text)}
		}
		opts = append(opts, risor.WithImporter(importer.NewFSImporter(importer.FSImporterOptions{GlobalNames: names, SourceFS: fs.FS(mfs), Extensions: []string{".risor"}})))
	}
	// a second simulated machine that must never answer: it sits underneath in
	// layered contexts, in warm-up runs of reused VMs and around nested evaluations
	decoy := simos.New()
	decoy.Setenv("VERIF_SENTINEL", "decoy-value")
	decoy.Setenv("SIMONLY", "decoy-only")
	decoy.Host = "decoy-host"
	ctx, cancel := context.WithCancel(context.Background())
	ctxBase := ctx // (before any OS is attached)
	optsNoOS := append([]risor.Option{}, opts...)
	switch route {
	case "WithOS":
		opts = append(opts, risor.WithOS(sos))
	case "ctx":
		ctx = ros.WithOS(ctx, sos)
	case "vos":
		// risor's own VirtualOS as the host OS: a minimal configuration (no home,
		// cache or config directory, no users), so that every default it falls
		// back to is visible. There is no call log; what is checked is that
		// nothing of the real machine shows up and nothing real is touched.
		vos := c12VirtualOS(ctx)
		if round%2 == 0 {
			opts = append(opts, risor.WithOS(vos))
		} else {
			ctx = ros.WithOS(ctx, vos)
		}
	default: // ctx-layered: the host OS is layered over a context that already carries one
		ctx = ros.WithOS(ros.WithOS(ctx, decoy), sos)
	}
	if fault == "relative-cwd" {
		sos.RelCwd = "relwork"
	}

	out := &EvalOutcome{}
	if ctxName == "clone-call-empty" {
		// the same, on a VM made with vm.NewEmpty and driven by RunCode (there is
		// no main code on such a VM)
		cfg := risor.NewConfig(opts...)
		s.Go("main", "definer", func() {
			ast, err := parser.Parse(context.Background(), src)
			if err != nil {
				panic("harness: " + err.Error())
			}
			code, err := compiler.Compile(ast, cfg.CompilerOpts()...)
			if err != nil {
				panic("harness: " + err.Error())
			}
			machine, err := vm.NewEmpty()
			if err != nil {
				panic("harness: " + err.Error())
			}
			if err := machine.RunCode(ctx, code, cfg.VMOpts()...); err != nil {
				out.Err = err
				out.Done = true
				return
			}
			s.Go("host", "clone-caller", func() {
				guard(out, func() (object.Object, error) {
					clone, err := machine.Clone()
					if err != nil {
						return nil, err
					}
					fnObj, err := machine.Get("entry")
					if err != nil {
						return nil, err
					}
					return clone.Call(ctx, fnObj.(*object.Function), nil)
				})
			})
		})
	} else if ctxName == "clone-call" {
		// host task 1 defines the functions; host task 2 calls entry() on a clone
		cfg := risor.NewConfig(opts...)
		var machine *vm.VirtualMachine
		caller := func() {
			guard(out, func() (object.Object, error) {
				clone, err := machine.Clone()
				if err != nil {
					return nil, err
				}
				fnObj, err := machine.Get("entry")
				if err != nil {
					return nil, err
				}
				return clone.Call(ctx, fnObj.(*object.Function), nil)
			})
		}
		s.Go("main", "definer", func() {
			ast, err := parser.Parse(context.Background(), src)
			if err != nil {
				panic("harness: " + err.Error())
			}
			code, err := compiler.Compile(ast, cfg.CompilerOpts()...)
			if err != nil {
				panic("harness: " + err.Error())
			}
			machine = vm.New(code, cfg.VMOpts()...)
			if err := machine.Run(ctx); err != nil {
				out.Err = err
				out.Done = true
				return
			}
			// a second host task calls entry() on a clone
			s.Go("host", "clone-caller", caller)
		})
	} else if ctxName == "nested-eval" {
		// an outer evaluation (on the decoy machine) calls a host builtin that
		// runs the probe in an inner evaluation with the host OS placed in the
		// builtin's own context
		inner := object.NewBuiltin("inner", func(bctx context.Context, args ...object.Object) object.Object {
			iopts := optsNoOS
			ictx := bctx
			if route == "WithOS" {
				// (a context OS takes precedence over the option by documented
				// design, so the option route starts from a clean context)
				iopts = append(append([]risor.Option{}, optsNoOS...), risor.WithOS(sos))
				ictx = context.Background()
			} else {
				ictx = ros.WithOS(bctx, sos)
			}
			v, err := risor.Eval(ictx, src, iopts...)
			if err != nil {
				return object.NewString("ERR:" + err.Error())
			}
			return v
		})
		oopts := append(append([]risor.Option{}, optsNoOS...), risor.WithOS(decoy), risor.WithGlobal("inner", inner))
		octx, ocancel := context.WithCancel(context.Background())
		defer ocancel()
		s.Go("main", "main", func() {
			guard(out, func() (object.Object, error) { return risor.Eval(octx, "inner()", oopts...) })
		})
	} else if strings.HasPrefix(ctxName, "vm-reuse") {
		// one VM reused for several evaluations (risor.WithVM): the probe runs in
		// the second or third one
		machine, err := vm.NewEmpty()
		if err != nil {
			panic("harness: " + err.Error())
		}
		ropts := append(append([]risor.Option{}, opts...), risor.WithVM(machine))
		// the warm-up run is configured differently (another OS, or none): what
		// counts for the probe is the configuration of ITS evaluation
		wopts := append(append([]risor.Option{}, optsNoOS...), risor.WithVM(machine))
		if round%2 == 0 {
			wopts = append(wopts, risor.WithOS(decoy))
		}
		if ctxName == "vm-reuse-os-kept" && route == "WithOS" {
			// the OS is supplied with the FIRST evaluation only; the VM keeps it,
			// so the later evaluation (which does not repeat the option) must
			// still be served by it
			wopts = append(append([]risor.Option{}, optsNoOS...), risor.WithVM(machine), risor.WithOS(sos))
			ropts = append(append([]risor.Option{}, optsNoOS...), risor.WithVM(machine))
		}
		s.Go("main", "main", func() {
			guard(out, func() (object.Object, error) {
				if _, err := risor.Eval(ctx, "1 + 1", wopts...); err != nil {
					return nil, fmt.Errorf("harness: warm-up evaluation failed: %w", err)
				}
				v, err := risor.Eval(ctx, src, ropts...)
				if err != nil || ctxName != "vm-reuse-call" {
					return v, err
				}
				fnObj, err := machine.Get("entry")
				if err != nil {
					return nil, err
				}
				return machine.Call(ctx, fnObj.(*object.Function), nil)
			})
		})
	} else if ctxName == "after-failed-output" {
		// another tenant's evaluation, on another OS whose terminal refuses every
		// write, printed just before: nothing of what it tried to print may show
		// up on this evaluation's terminal
		other := simos.New()
		other.FailAll = true
		oopts := append(append([]risor.Option{}, optsNoOS...), risor.WithOS(other))
		const stale = `try(func() { print("STALE-A-MARK") }, func(e) { return 0 })
try(func() { printf("STALE-B-%d-MARK", 1) }, func(e) { return 0 })
try(func() { fmt.println("STALE-C-MARK") }, func(e) { return 0 })
try(func() { fmt.printf("STALE-D-%s-MARK", "x") }, func(e) { return 0 })
try(func() { os.stdout.write("STALE-E-MARK") }, func(e) { return 0 })
try(func() { os.stderr.write("STALE-F-MARK") }, func(e) { return 0 })
`
		s.Go("main", "main", func() {
			guard(out, func() (object.Object, error) {
				// (a sibling context: same server-wide cancellation scope, other tenant)
				type tenantKey struct{}
				octx := context.Context(context.Background())
				if round%2 == 0 {
					octx = context.WithValue(ctxBase, tenantKey{}, "other")
				}
				if _, err := risor.Eval(octx, stale, oopts...); err != nil {
					return nil, fmt.Errorf("harness: the other tenant's evaluation failed: %w", err)
				}
				return risor.Eval(ctx, src, opts...)
			})
		})
	} else {
		s.Go("main", "main", func() {
			guard(out, func() (object.Object, error) { return risor.Eval(ctx, src, opts...) })
		})
	}
	if ctxName == "defer-after-cancel" {
		// the evaluation is cancelled while d() spins with its deferred call pending
		s.AtStep(60+int(rc.Tape.Stream("fault").Intn(200)), "cancel", func() {
			rc.Hit("fault_cancel")
			cancel()
			s.SetStrategy(sim.Fair{})
		})
	}
	s.Until = func() bool { return out.Done && len(aliveExcept(s, "vm.watcher", "file.watcher")) == 0 }
	verdict := s.Run()
	s.Shutdown(cancel)
	rc.AbsorbSim(s, strat.Name())
	rc.NonTrivial = true
	rc.Digest = sim.HashString(t.Name + "|" + ctxName + "|" + route + "|" + fault)
	after := realSnapshot()

	tuple := fmt.Sprintf("%s / %s / %s / %s", t.Name, ctxName, route, fault)
	calls := sos.Calls()
	var callStrs []string
	for _, c := range calls {
		cs := c.Method + "(" + c.Args + ")"
		if c.Err != "" {
			cs += "!" + c.Err
		}
		callStrs = append(callStrs, cs)
	}
	rc.Sample = map[string]any{"tuple": tuple, "program": src, "modules": mods, "result": out.String(), "os_calls": callStrs, "stdout": sos.StdoutString()}
	rc.Hit("ctx_" + ctxName)
	rc.Hit("route_" + route)
	rc.Hit("faultmode_" + fault)
	rc.Count("fault_injected_os_errors", sos.Injected)

	locus := t.Covers + "/" + ctxName + "/" + route
	// 4. tripwires first: a disturbed real machine is the clearest sign
	if logTrip.Len() > 0 {
		rc.Violate("tripwire/real-stderr/"+t.Covers, "%s: something was written to the process's own standard logger (real standard error): %q", tuple, logTrip.String())
		return
	}
	if before != after {
		rc.Violate("tripwire/real-machine-changed/"+locus, "%s: the real process state changed:\n before: %s\n after:  %s", tuple, before, after)
		return
	}
	if out.Panic != nil {
		rc.Violate("panic/api/"+locus, "%s: panic reached the caller: %v", tuple, out.Panic)
		return
	}
	if foreign := c12ForeignOutput(t, sos.StdoutString()+" "+sos.StderrString()); foreign != "" {
		rc.Violate("mediation/foreign-output/"+t.Covers, "%s: the simulated terminal received output of another evaluation: %s; stdout %q stderr %q", tuple, foreign, sos.StdoutString(), sos.StderrString())
		return
	}
	if (verdict != sim.Done || !out.Done) && fault == "fail-second" && ctxName == "go-chan" {
		// An OS error in the middle of a builtin can end in a recovered Go panic
		// (os.read_dir with a failing lstat does, on the unchanged tree), which
		// ends the goroutine of a go statement silently; main then waits for a
		// message that never comes. Nothing about mediation can be observed.
		rc.Hit("tolerated_goroutine_ended_by_fault_in_go_statement")
		return
	}
	if verdict != sim.Done || !out.Done {
		rc.Violate("liveness/"+locus, "%s: did not finish (verdict %s)", tuple, verdict)
		return
	}
	if route == "vos" {
		res := out.String()
		if leak := c12Leak(res); leak != "" {
			rc.Violate("divergence/real-data/"+locus, "%s: with risor's VirtualOS as the host OS the result %q carries %s", tuple, res, leak)
			return
		}
		if ctxName != "defer-after-cancel" && ctxName != "nested-eval" { // (the nested evaluation runs on the simulated OS)
			for _, c := range t.VosContains {
				if !strings.Contains(res, c) {
					rc.Violate("divergence/virtual-os-result/"+locus, "%s: with risor's VirtualOS (in-memory mounts) as the host OS the result %q lacks %q", tuple, res, c)
					return
				}
			}
		}
		return
	}
	if ctxName == "defer-after-cancel" {
		if out.Err == nil {
			rc.Violate("error/missing/"+locus, "%s: the cancelled evaluation returned %s without an error", tuple, out.String())
			return
		}
		methods := sos.Methods()
		if fault == "none" || fault == "relative-cwd" {
			for _, m := range t.DeferMethods {
				if methods[m] == 0 {
					rc.Violate("mediation/not-logged/"+locus, "%s: the deferred call ran during the unwind of a cancelled evaluation, but the simulated OS never saw %s (calls %v)", tuple, m, callStrs)
					return
				}
			}
			if t.DeferStdout != "" && !strings.Contains(sos.StdoutString(), t.DeferStdout) {
				rc.Violate("mediation/stdout/"+locus, "%s: simulated stdout %q lacks %q", tuple, sos.StdoutString(), t.DeferStdout)
				return
			}
		}
		if len(decoy.Calls()) > 3 {
			rc.Violate("mediation/wrong-os-instance/"+locus, "%s: calls reached an OS instance that was not the one supplied for this evaluation", tuple)
		}
		return
	}
	if out.Err != nil {
		// exit(n != 0) legitimately surfaces as an error after calling the OS
		if !(t.ExitCode > 0 && strings.Contains(out.Err.Error(), "exit(")) {
			if fault == "none" {
				rc.Violate("error/unexpected/"+locus, "%s: %v", tuple, out.Err)
				return
			}
		}
	}
	res := ""
	if out.Err != nil {
		res = "ERR:" + out.Err.Error()
	} else if str, ok := out.Result.(*object.String); ok {
		res = str.Value()
	} else if out.Result != nil {
		res = safeInspect(out.Result)
	}
	methods := sos.Methods()
	if t.Pure {
		// 1'. pure path functions must not touch the OS (PathSeparator-style
		// queries are tolerated)
		for m := range methods {
			if m != "PathSeparator" && m != "PathListSeparator" {
				rc.Violate("mediation/pure-touched-os/"+locus, "%s: pure function reached the OS: %v", tuple, callStrs)
				return
			}
		}
		for _, c := range t.Contains {
			if !strings.Contains(res, c) {
				rc.Violate("divergence/pure-result/"+locus, "%s: result %q lacks %q", tuple, res, c)
				return
			}
		}
		return
	}
	failed := strings.HasPrefix(res, "ERR:")
	switch fault {
	case "none":
		// 1. mediation log
		for _, m := range t.Methods {
			if methods[m] == 0 {
				rc.Violate("mediation/not-logged/"+locus, "%s: simulated OS never saw %s (result %q, calls %v)", tuple, m, res, callStrs)
				return
			}
		}
		// 2. state divergence
		if failed && t.ExitCode <= 0 {
			rc.Violate("divergence/unexpected-error/"+locus, "%s: %s", tuple, res)
			return
		}
		for _, c := range t.Contains {
			if !strings.Contains(res, c) {
				rc.Violate("divergence/result/"+locus, "%s: result %q lacks the simulated machine's answer %q", tuple, res, c)
				return
			}
		}
		if leak := c12Leak(res); leak != "" {
			rc.Violate("divergence/real-data/"+locus, "%s: result %q carries %s", tuple, res, leak)
			return
		}
		if t.Stdout != "" && !strings.Contains(sos.StdoutString(), t.Stdout) {
			rc.Violate("mediation/stdout/"+locus, "%s: simulated stdout %q lacks %q", tuple, sos.StdoutString(), t.Stdout)
			return
		}
		if t.Stderr != "" && !strings.Contains(sos.StderrString(), t.Stderr) {
			rc.Violate("mediation/stderr/"+locus, "%s: simulated stderr %q lacks %q", tuple, sos.StderrString(), t.Stderr)
			return
		}
		if t.ExitCode >= 0 {
			if len(sos.Exits) != 1 || sos.Exits[0] != t.ExitCode {
				rc.Violate("mediation/exit/"+locus, "%s: exit requests recorded by the simulated OS: %v", tuple, sos.Exits)
				return
			}
		}
	case "fail-first", "fail-all":
		// 3. fault visibility: a call whose OS method can fail must not
		// succeed with data when the simulated OS refuses it
		if sos.Injected == 0 && t.Failable {
			rc.Violate("mediation/fault-not-reached/"+locus, "%s: no failable OS call reached the simulated OS (result %q, calls %v)", tuple, res, callStrs)
			return
		}
		if t.Failable && !failed {
			rc.Violate("fault-visibility/succeeded-despite-os-error/"+locus, "%s: the simulated OS failed the call but the script got %q (calls %v)", tuple, res, callStrs)
			return
		}
		if leak := c12Leak(res); leak != "" {
			rc.Violate("divergence/real-data/"+locus, "%s: result %q carries %s", tuple, res, leak)
			return
		}
	case "fail-second":
		// no particular outcome is demanded (the template may or may not reach a
		// second failable call); what must hold are the tripwires above and:
		if leak := c12Leak(res); leak != "" {
			rc.Violate("divergence/real-data/"+locus, "%s: result %q carries %s", tuple, res, leak)
			return
		}
	case "relative-cwd":
		// a host that reports a relative working directory: answers may differ
		// in form, but must still come from the simulated machine only
		for _, m := range t.Methods {
			if methods[m] == 0 {
				rc.Violate("mediation/not-logged/"+locus, "%s: simulated OS never saw %s (result %q, calls %v)", tuple, m, res, callStrs)
				return
			}
		}
		if leak := c12Leak(res); leak != "" {
			rc.Violate("divergence/real-data/"+locus, "%s: result %q carries %s", tuple, res, leak)
			return
		}
	}
	if len(decoy.Calls()) > 3 {
		// (3 = the Setenv calls that configured it)
		var dc []string
		for _, c := range decoy.Calls()[3:] {
			dc = append(dc, c.Method+"("+c.Args+")")
		}
		rc.Violate("mediation/wrong-os-instance/"+locus, "%s: calls reached an OS instance that was not the one supplied for this evaluation: %v (result %q)", tuple, dc, res)
		return
	}
}

// c12VirtualOS builds a VirtualOS over in-memory filesystems, configured as
// little as possible.
func c12VirtualOS(ctx context.Context) *ros.VirtualOS {
	mfs := ros.NewMockFS()
	for _, d := range []string{"/simroot", "/simroot/work", "/simroot/work/dir", "/simroot/tmp", "simroot", "simroot/work", "simroot/work/dir", "simroot/tmp"} {
		mfs.MkdirAll(d, 0o755)
	}
	for _, pre := range []string{"/", ""} {
		mfs.WriteFile(pre+"simroot/work/a.txt", []byte("alpha-vos\nline2-vos\n"), 0o644)
		mfs.WriteFile(pre+"simroot/work/dir/b.txt", []byte("beta-vos"), 0o644)
	}
	return ros.NewVirtualOS(ctx,
		ros.WithCwd("/simroot/work"),
		ros.WithMounts(map[string]*ros.Mount{"/": {Source: mfs, Target: "/", Type: "mem"}, "/data": {Source: ros.NewMockFS(), Target: "/data", Type: "mem"}}),
		ros.WithEnvironment(map[string]string{"VERIF_SENTINEL": "vos-value", "SIMONLY": "vos-only"}),
		ros.WithArgs([]string{"vos-arg0"}),
		ros.WithExitHandler(func(int) {}),
	)
}

// c12Leak reports data of the real machine (or of the decoy machine) in a result.
func c12Leak(res string) string {
	if strings.Contains(res, "real-value") || strings.Contains(res, "only-real") {
		return "environment data of the real machine"
	}
	if strings.Contains(res, "decoy") {
		return "data of an OS instance that was not supplied for this evaluation"
	}
	if wd, err := goos.Getwd(); err == nil && len(wd) > 3 && strings.Contains(res, wd) {
		return "the real process working directory"
	}
	if hn, err := goos.Hostname(); err == nil && len(hn) > 3 && strings.Contains(res, hn) {
		return "the real host name"
	}
	return ""
}
