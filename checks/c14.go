package checks

import (
	"context"
	"errors"
	"fmt"
	"github.com/risor-io/risor/compiler"
	"github.com/risor-io/risor/parser"
	"github.com/risor-io/risor/vm"
	"io"
	"io/fs"
	goos "os"
	"path/filepath"
	"sort"
	"strings"
	"sync"

	"github.com/risor-io/risor"
	"github.com/risor-io/risor/importer"
	"github.com/risor-io/risor/object"
	"github.com/risor-io/risor/verif/fw"
	"github.com/risor-io/risor/verif/sim"
)

// ---------------------------------------------------------------------------
// SimFS: the module source "disk" for FSImporter. It follows the io/fs
// contract strictly (invalid names are refused and recorded), records every
// Open, and injects open errors and mid-stream read errors.

type SimFS struct {
	mu       sync.Mutex
	Files    map[string]string
	Opens    []string
	Invalid  []string
	FailOpen map[string]int // remaining injected open failures per file name
	FailRead map[string]int // remaining injected read failures per file name
	Injected int
}

func NewSimFS() *SimFS {
	return &SimFS{Files: map[string]string{}, FailOpen: map[string]int{}, FailRead: map[string]int{}}
}

func (f *SimFS) Open(name string) (fs.File, error) {
	f.mu.Lock()
	defer f.mu.Unlock()
	f.Opens = append(f.Opens, name)
	if !fs.ValidPath(name) {
		f.Invalid = append(f.Invalid, name)
		return nil, &fs.PathError{Op: "open", Path: name, Err: fs.ErrInvalid}
	}
	if f.FailOpen[name] > 0 {
		f.FailOpen[name]--
		f.Injected++
		return nil, &fs.PathError{Op: "open", Path: name, Err: errors.New("sim-injected: input/output error")}
	}
	data, ok := f.Files[name]
	if !ok {
		return nil, &fs.PathError{Op: "open", Path: name, Err: fs.ErrNotExist}
	}
	sf := &simFSFile{name: name, data: []byte(data)}
	if f.FailRead[name] > 0 {
		f.FailRead[name]--
		f.Injected++
		sf.failAfter = len(data) / 2
		sf.fail = true
	}
	return sf, nil
}

type simFSFile struct {
	name      string
	data      []byte
	pos       int
	fail      bool
	failAfter int
}

func (f *simFSFile) Stat() (fs.FileInfo, error) { return nil, errors.New("stat not supported") }
func (f *simFSFile) Close() error               { return nil }
func (f *simFSFile) Read(p []byte) (int, error) {
	if f.fail && f.pos >= f.failAfter {
		return 0, errors.New("sim-injected: read error mid-stream")
	}
	if f.pos >= len(f.data) {
		return 0, io.EOF
	}
	end := len(f.data)
	if f.fail && end > f.failAfter {
		end = f.failAfter
	}
	n := copy(p, f.data[f.pos:end])
	f.pos += n
	return n, nil
}

// ---------------------------------------------------------------------------
// G-mod

type modSpec struct {
	Path     string // "m1" or "pkg/m3"
	Deps     []int
	BumpDeps bool
	DepSpell []int
	// SharedBase: another module of the tree has the same file name in another
	// directory; such modules are always imported under an alias
	SharedBase bool
	// Decoy: a module whose file has the name of a directory of the tree
	// (pkg.risor next to pkg/) and whose globals have the names of the modules
	// in that directory
	Decoy bool
}

func (m *modSpec) last() string {
	if i := strings.LastIndexByte(m.Path, '/'); i >= 0 {
		return m.Path[i+1:]
	}
	return m.Path
}

// importStmt renders an import of module m that binds a module object to the
// returned name.
func importStmt(m *modSpec, spelling int, alias string) (stmt, bind string) {
	if m.SharedBase && spelling%5 < 2 {
		spelling = 2 + spelling%5
	}
	dotted := strings.ReplaceAll(m.Path, "/", ".")
	hasDir := strings.Contains(m.Path, "/")
	switch spelling % 5 {
	case 0: // identifier (only for top-level modules) or quoted path
		if !hasDir {
			return "import " + m.Path, m.Path
		}
		return fmt.Sprintf("import %q", m.Path), m.last()
	case 1: // quoted path
		return fmt.Sprintf("import %q", m.Path), m.last()
	case 2: // aliased
		if !hasDir {
			return fmt.Sprintf("import %s as %s", m.Path, alias), alias
		}
		return fmt.Sprintf("import %q as %s", m.Path, alias), alias
	case 3: // from <dir> import <module>
		if hasDir {
			dir := dotted[:strings.LastIndexByte(dotted, '.')]
			return fmt.Sprintf("from %s import %s as %s", dir, m.last(), alias), alias
		}
		return fmt.Sprintf("import %q as %s", m.Path, alias), alias
	default: // grouped from-import of a module
		if hasDir {
			dir := m.Path[:strings.LastIndexByte(m.Path, '/')]
			return fmt.Sprintf("from %q import (%s as %s)", dir, m.last(), alias), alias
		}
		return fmt.Sprintf("import %s as %s", m.Path, alias), alias
	}
}

func moduleSource(mods []*modSpec, i int) string {
	m := mods[i]
	var b strings.Builder
	fmt.Fprintf(&b, "tick(%q)\n", m.Path)
	var binds []string
	for k, d := range m.Deps {
		st, bind := importStmt(mods[d], m.DepSpell[k], fmt.Sprintf("dep%d", k))
		b.WriteString(st + "\n")
		binds = append(binds, bind)
	}
	b.WriteString("state := 0\n")
	b.WriteString("func bump() { state = state + 1; return state }\n")
	b.WriteString("func get() { return state }\n")
	// the body uses its own functions before the point where it may fail (net
	// effect on state: none)
	b.WriteString("bump()\nstate = get() - 1\n")
	// the host can make the body fail half-way (after state, before the rest)
	fmt.Fprintf(&b, "maybe_fail(%q)\n", m.Path)
	fmt.Fprintf(&b, "name := %q\n", m.Path)
	fmt.Fprintf(&b, "shared := %d\n", i)
	if m.BumpDeps {
		for _, bind := range binds {
			fmt.Fprintf(&b, "%s.bump()\n", bind)
		}
	}
	if m.Decoy {
		// variables named like the modules of the directory with this name
		for _, n := range []string{"m0", "m1", "m2", "m3", "m4", "m5", "sub", "bump2"} {
			fmt.Fprintf(&b, "%s := \"decoy-variable-of-%s\"\n", n, m.Path)
		}
	}
	return b.String()
}

type modModel struct {
	loaded map[int]bool
	state  map[int]int
	ticks  map[int]int
}

func (mm *modModel) imp(mods []*modSpec, i int) {
	if mm.loaded[i] {
		return
	}
	mm.ticks[i]++
	// deps are imported (and their bodies run) before this module's state
	// exists; the module is visible only after its body completed
	for _, d := range mods[i].Deps {
		mm.imp(mods, d)
	}
	mm.state[i] = 0
	if mods[i].BumpDeps {
		for _, d := range mods[i].Deps {
			mm.state[d]++
		}
	}
	mm.loaded[i] = true
}

type c14Prog struct {
	Nested bool // the nested-spawn snippet over nestmod is part of Main
	Mods      []*modSpec
	Main      string
	Expected  []string
	Model     *modModel
	FaultMod  int // module whose file fails on first import attempt (-1 none)
	FaultKind string
}

func genModules(g *sim.Stream) []*modSpec {
	n := g.Range(1, 6)
	var mods []*modSpec
	// in a third of the trees file names repeat across directories
	repeat := g.Chance(1, 3)
	used := map[string]bool{}
	for i := 0; i < n; i++ {
		m := &modSpec{}
		base := i
		if repeat {
			base = g.Intn(2)
		}
		for try := 0; ; try++ {
			switch (g.Intn(4) + try) % 4 {
			case 0:
				m.Path = fmt.Sprintf("pkg/m%d", base)
			case 1:
				m.Path = fmt.Sprintf("pkg/sub/m%d", base)
			case 2:
				m.Path = fmt.Sprintf("lib/m%d", base)
			default:
				m.Path = fmt.Sprintf("m%d", base)
			}
			if !used[m.Path] {
				break
			}
			if try >= 4 {
				base = 10 + i
			}
		}
		used[m.Path] = true
		for d := 0; d < i; d++ {
			if g.Chance(1, 3) {
				m.Deps = append(m.Deps, d)
				m.DepSpell = append(m.DepSpell, g.Intn(5))
			}
		}
		m.BumpDeps = g.Bool()
		mods = append(mods, m)
	}
	if g.Chance(1, 4) {
		for _, dir := range []string{"pkg", "lib"} {
			has := false
			for _, m := range mods {
				if strings.HasPrefix(m.Path, dir+"/") {
					has = true
				}
			}
			if has && !used[dir] && len(mods) < 7 {
				mods = append(mods, &modSpec{Path: dir, Decoy: true})
				used[dir] = true
				break
			}
		}
	}
	bases := map[string]int{}
	for _, m := range mods {
		bases[m.last()]++
	}
	for _, m := range mods {
		m.SharedBase = bases[m.last()] > 1
	}
	return mods
}

func genC14(g *sim.Stream, f *sim.Stream) *c14Prog {
	p := &c14Prog{Mods: genModules(g), FaultMod: -1}
	mods := p.Mods
	mm := &modModel{loaded: map[int]bool{}, state: map[int]int{}, ticks: map[int]int{}}
	p.Model = mm
	var b strings.Builder
	b.WriteString("state := 1000\nname := \"main\"\nshared := -1\nobs := []\n")
	type binding struct {
		name string
		mod  int
		kind string // "module" | "bump" | "get"
	}
	var binds []binding
	nalias := 0
	obs := func(v string) { p.Expected = append(p.Expected, v) }
	// optional fault on the first import attempt of one module (a leaf, so
	// that no other module's body is half-way through when it fails)
	if f.Chance(1, 3) {
		var leaves []int
		for i, m := range mods {
			if len(m.Deps) == 0 {
				leaves = append(leaves, i)
			}
		}
		p.FaultMod = leaves[f.Intn(len(leaves))]
		p.FaultKind = []string{"open-error", "read-error", "body-error", "body-error"}[f.Intn(4)]
		m := mods[p.FaultMod]
		fmt.Fprintf(&b, "obs.append(try(func() { import %q as failing; return \"imported\" }, func(e) { return \"ERR\" }))\n", m.Path)
		obs(`"ERR"`)
	}
	nops := g.Range(3, 14)
	for k := 0; k < nops; k++ {
		kind := g.Intn(10)
		if len(binds) == 0 && kind != 8 && kind != 9 {
			kind = 0
		}
		switch kind {
		case 9: // an import inside a function, under the name of a global module binding
			if len(mods) < 2 {
				i := g.Intn(len(mods))
				nalias++
				st, bind := importStmt(mods[i], g.Intn(5), fmt.Sprintf("al%d", nalias))
				b.WriteString(st + "\n")
				mm.imp(mods, i)
				binds = append(binds, binding{bind, i, "module"})
				break
			}
			i := g.Intn(len(mods))
			j := (i + 1 + g.Intn(len(mods)-1)) % len(mods)
			nalias++
			name := fmt.Sprintf("shx%d", nalias)
			fmt.Fprintf(&b, "import %q as %s\n", mods[i].Path, name)
			mm.imp(mods, i)
			binds = append(binds, binding{name, i, "module"})
			// the function's own import binds a LOCAL of the same name
			if g.Bool() {
				fmt.Fprintf(&b, "func fsh%d() { import %q as %s; return %s.get() }\n", nalias, mods[j].Path, name, name)
			} else if strings.Contains(mods[j].Path, "/") {
				dj := strings.LastIndexByte(mods[j].Path, '/')
				fmt.Fprintf(&b, "func fsh%d() { from %q import %s as %s; return %s.get() }\n", nalias, mods[j].Path[:dj], mods[j].last(), name, name)
			} else {
				fmt.Fprintf(&b, "func fsh%d() { import %s as %s; return %s.get() }\n", nalias, mods[j].Path, name, name)
			}
			fmt.Fprintf(&b, "obs.append(fsh%d())\n", nalias)
			mm.imp(mods, j)
			obs(fmt.Sprint(mm.state[j]))
			fmt.Fprintf(&b, "obs.append(%s.get())\n", name)
			obs(fmt.Sprint(mm.state[i]))
		case 8: // one from-import statement that brings in two modules of a directory
			done := false
			for i := range mods {
				for j := range mods {
					di, dj := strings.LastIndexByte(mods[i].Path, '/'), strings.LastIndexByte(mods[j].Path, '/')
					if done || i >= j || di < 0 || dj < 0 || mods[i].Path[:di] != mods[j].Path[:dj] || mods[i].Decoy || mods[j].Decoy {
						continue
					}
					nalias++
					a1, a2 := fmt.Sprintf("ga%d", nalias), fmt.Sprintf("gb%d", nalias)
					dir := mods[i].Path[:di]
					if g.Bool() {
						fmt.Fprintf(&b, "from %q import (%s as %s, %s as %s)\n", dir, mods[i].last(), a1, mods[j].last(), a2)
					} else {
						fmt.Fprintf(&b, "from %s import %s as %s, %s as %s\n", strings.ReplaceAll(dir, "/", "."), mods[i].last(), a1, mods[j].last(), a2)
					}
					mm.imp(mods, i)
					mm.imp(mods, j)
					binds = append(binds, binding{a1, i, "module"}, binding{a2, j, "module"})
					done = true
				}
			}
			if !done {
				i := g.Intn(len(mods))
				nalias++
				st, bind := importStmt(mods[i], g.Intn(5), fmt.Sprintf("al%d", nalias))
				b.WriteString(st + "\n")
				mm.imp(mods, i)
				binds = append(binds, binding{bind, i, "module"})
			}
		case 0, 1: // import a module under some spelling
			i := g.Intn(len(mods))
			nalias++
			st, bind := importStmt(mods[i], g.Intn(5), fmt.Sprintf("al%d", nalias))
			b.WriteString(st + "\n")
			mm.imp(mods, i)
			binds = append(binds, binding{bind, i, "module"})
		case 2: // from-import functions under aliases
			i := g.Intn(len(mods))
			nalias++
			bn, gn := fmt.Sprintf("b%d", nalias), fmt.Sprintf("g%d", nalias)
			dotted := strings.ReplaceAll(mods[i].Path, "/", ".")
			switch g.Intn(3) {
			case 0:
				fmt.Fprintf(&b, "from %s import bump as %s, get as %s\n", dotted, bn, gn)
			case 1:
				fmt.Fprintf(&b, "from %q import (bump as %s, get as %s)\n", mods[i].Path, bn, gn)
			default:
				fmt.Fprintf(&b, "from %s import (\n  bump as %s,\n  get as %s,\n)\n", dotted, bn, gn)
			}
			mm.imp(mods, i)
			binds = append(binds, binding{bn, i, "bump"}, binding{gn, i, "get"})
		case 3, 4: // bump through a binding
			bd := binds[g.Intn(len(binds))]
			switch bd.kind {
			case "module":
				fmt.Fprintf(&b, "obs.append(%s.bump())\n", bd.name)
				mm.state[bd.mod]++
				obs(fmt.Sprint(mm.state[bd.mod]))
			case "bump":
				fmt.Fprintf(&b, "obs.append(%s())\n", bd.name)
				mm.state[bd.mod]++
				obs(fmt.Sprint(mm.state[bd.mod]))
			default:
				fmt.Fprintf(&b, "obs.append(%s())\n", bd.name)
				obs(fmt.Sprint(mm.state[bd.mod]))
			}
		case 5: // read module state through a binding
			bd := binds[g.Intn(len(binds))]
			switch bd.kind {
			case "module":
				if g.Bool() {
					fmt.Fprintf(&b, "obs.append(%s.state)\n", bd.name)
				} else {
					fmt.Fprintf(&b, "obs.append(%s.get())\n", bd.name)
				}
				obs(fmt.Sprint(mm.state[bd.mod]))
			case "get":
				fmt.Fprintf(&b, "obs.append(%s())\n", bd.name)
				obs(fmt.Sprint(mm.state[bd.mod]))
			default:
				fmt.Fprintf(&b, "obs.append(state)\n")
				obs("1000")
			}
		case 6: // same-named globals stay distinct
			bd := binds[g.Intn(len(binds))]
			if bd.kind == "module" {
				fmt.Fprintf(&b, "obs.append([name, %s.name, shared, %s.shared, state])\n", bd.name, bd.name)
				obs(fmt.Sprintf("[\"main\", %q, -1, %d, 1000]", mods[bd.mod].Path, bd.mod))
			} else {
				b.WriteString("obs.append([name, shared, state])\n")
				obs("[\"main\", -1, 1000]")
			}
		default: // main writes its own same-named global; modules must not see it
			b.WriteString("state = state + 0\nshared = -1\n")
			bd := binds[g.Intn(len(binds))]
			if bd.kind == "module" {
				fmt.Fprintf(&b, "obs.append(%s.shared)\n", bd.name)
				obs(fmt.Sprint(bd.mod))
			}
		}
	}
	if g.Chance(1, 4) {
		// a goroutine is the first to import a module, changes its state and
		// then spawns another goroutine that imports it too: one body run, one
		// state (the second goroutine is cloned from the first, after the import)
		p.Nested = true
		b.WriteString("nst := spawn(func() {\n  import nestmod as nx\n  nx.bump()\n  gch := spawn(func() { import nestmod as ny; return [ny.get(), ny.bump()] })\n  r := gch.wait()\n  return [nx.get(), r[0], r[1]]\n})\nobs.append(nst.wait())\n")
		obs("[2, 1, 2]")
	}
	if g.Chance(1, 4) {
		// two modules in different directories whose files are the same text,
		// byte for byte: two modules all the same, each with its own globals
		b.WriteString("import \"twa/tw\" as twa\nimport \"twb/tw\" as twb\ntwa.bump()\ntwa.bump()\nobs.append([twa.get(), twb.get(), twb.bump(), twa.get(), twa.label, twb.label])\n")
		obs("[2, 0, 1, 2, \"tw\", \"tw\"]")
	}
	b.WriteString("obs\n")
	p.Main = b.String()
	return p
}

// ---------------------------------------------------------------------------

var hostileImports = []string{
	`import "../outside"`, `import "a/../../outside"`, `import "/outside"`, `import "./outside"`, `import "pkg/../../outside"`,
	`from ".." import outside`, `from "../" import outside`, `from "pkg/../.." import outside`, `import "..\\outside"`,
	`import "outside/"`, `import "pkg//m"`, `import "."`, `import ".."`, `import "pkg/./../../outside"`, `from "." import outside`,
	`import "outside.risor"`, `import "../root/../outside"`, `import "%2e%2e/outside"`, `import "pkg/..outside"`,
}

var hostilePieces = []string{"..", "..", ".", "", "outside", "root", "sandbox", "pkg", "~", "..outside", "outside..", "...", "%2e%2e", "outside.risor", "C:", " ", "..\\\\outside", "\\x00", "\\u2215", "a b"}

// genHostileImport assembles an import statement around a quoted path made of
// escaping, odd and legal components.
func genHostileImport(g *sim.Stream, prog *c14Prog) string {
	var parts []string
	n := g.Range(1, 5)
	for i := 0; i < n; i++ {
		if len(prog.Mods) > 0 && g.Chance(1, 4) {
			// a legal piece: (a prefix of) an existing module path
			segs := strings.Split(prog.Mods[g.Intn(len(prog.Mods))].Path, "/")
			parts = append(parts, segs[:g.Range(1, len(segs))]...)
			continue
		}
		parts = append(parts, hostilePieces[g.Intn(len(hostilePieces))])
	}
	path := strings.Join(parts, "/")
	switch g.Intn(6) {
	case 0:
		path = "/" + path
	case 1:
		path = "./" + path
	case 2:
		path = path + "/"
	case 3:
		path = "../" + path
	}
	switch g.Intn(5) {
	case 0:
		return fmt.Sprintf("import \"%s\"", path)
	case 1:
		return fmt.Sprintf("import \"%s\" as hx", path)
	case 2:
		return fmt.Sprintf("from \"%s\" import outside", path)
	case 3:
		return fmt.Sprintf("from \"%s\" import (outside, root as r2)", path)
	default:
		return fmt.Sprintf("from \"%s\" import outside as o2", path)
	}
}

func init() {
	fw.Register(&fw.Scenario{
		Property: "C14",
		Name:     "imports",
		Run:      runC14,
		Level:    "exploration",
		Rule: "one run = one generated module tree (1..6 modules, sub-directories, transitive imports with body-time mutation of dependencies, every import spelling: identifier, quoted path, aliased, from-import of modules and of members, grouped, multi-line) and one generated main script " +
			"mixing imports, mutations and reads through every alias, served by FSImporter over a recording/fault-injecting fs.FS or by LocalImporter over a scratch tree with sentinel modules outside the root (reads observed through the importer.read hook); " +
			"modes: sequential with an injected open/read error on a first import attempt and retry, hostile spellings, concurrent importers in 2..4 goroutines under the seeded scheduler; observations are compared with an executable model of import-once semantics; " +
			"non-trivial = at least two import statements reached the same module or a fault was injected; distinct = distinct program text and trace",
		Real: []string{"parser (import forms, validateImportPath)", "compiler (compileImport, compileFromImport)", "vm.importModule, Clone", "importer.FSImporter", "importer.LocalImporter", "object.Module"},
		Stub: []string{"SimFS (fs.FS with record and faults)", "scratch directory tree for LocalImporter", "host builtin tick", "scheduler (sim)"},
		Assumptions: []string{
			"spelling-space coverage of the confinement clause is a list of hostile spellings plus the generated legal ones, not a grammar enumeration",
			"the extra probe 'a/x' before 'a' performed by 'from a import x' is legal (inside the root)",
		},
	})
}

type tickHost struct {
	mu       sync.Mutex
	ticks    map[string]int
	failLeft map[string]int
	failed   int
}

// failBuiltin fails the body of the named module while its budget lasts.
func (t *tickHost) failBuiltin() *object.Builtin {
	return object.NewBuiltin("maybe_fail", func(ctx context.Context, args ...object.Object) object.Object {
		if len(args) == 1 {
			if s, ok := args[0].(*object.String); ok {
				t.mu.Lock()
				defer t.mu.Unlock()
				if t.failLeft[s.Value()] > 0 {
					t.failLeft[s.Value()]--
					t.failed++
					return object.Errorf("module body failed (injected)")
				}
			}
		}
		return object.Nil
	})
}

func (t *tickHost) builtin() *object.Builtin {
	return object.NewBuiltin("tick", func(ctx context.Context, args ...object.Object) object.Object {
		if len(args) == 1 {
			if s, ok := args[0].(*object.String); ok {
				t.mu.Lock()
				t.ticks[s.Value()]++
				t.mu.Unlock()
			}
		}
		return object.Nil
	})
}

func runC14(rc *fw.RunCtx) {
	g := rc.Tape.Stream("gen")
	f := rc.Tape.Stream("fault")
	mode := g.Intn(10) // 0: hostile spellings; 1,2: concurrent importers; else sequential
	useLocal := g.Chance(1, 3)
	prog := genC14(g, f)
	th := &tickHost{ticks: map[string]int{}, failLeft: map[string]int{}}
	extra := map[string]any{"tick": th.builtin(), "maybe_fail": th.failBuiltin()}
	globals := baseGlobals(extra)
	// a second evaluation sharing the importer (importers are documented as
	// safe to share between VMs and evaluations) must not disturb the first
	shared := mode >= 3 && g.Chance(1, 4)
	th2 := &tickHost{ticks: map[string]int{}, failLeft: map[string]int{}}
	var names []string
	for k := range globals {
		names = append(names, k)
	}
	sort.Strings(names)

	// ---- module storage
	sfs := NewSimFS()
	for i, m := range prog.Mods {
		sfs.Files[m.Path+".risor"] = moduleSource(prog.Mods, i)
	}
	sfs.Files["outside_probe_inside.risor"] = "tick(\"inside-decoy\")\n"
	sfs.Files["twa/tw.risor"] = "n := 0\nlabel := \"tw\"\nfunc bump() { n = n + 1; return n }\nfunc get() { return n }\n"
	sfs.Files["twb/tw.risor"] = sfs.Files["twa/tw.risor"]
	sfs.Files["nestmod.risor"] = "tick(\"nestmod\")\nstate := 0\nfunc bump() { state = state + 1; return state }\nfunc get() { return state }\n"
	var imp importer.Importer
	root := ""
	scratch := ""
	if useLocal {
		base := goos.Getenv("VERIF_OUT")
		if base == "" {
			base = goos.TempDir()
		} else {
			base = dirOf(base)
		}
		var err error
		scratch, err = goos.MkdirTemp(base, "c14-")
		if err != nil {
			panic("harness: " + err.Error())
		}
		defer goos.RemoveAll(scratch)
		root = filepath.Join(scratch, "sandbox", "root")
		for name, text := range sfs.Files {
			p := filepath.Join(root, name)
			goos.MkdirAll(filepath.Dir(p), 0o755)
			goos.WriteFile(p, []byte(text), 0o644)
		}
		// sentinels outside the root
		for _, p := range []string{filepath.Join(scratch, "sandbox", "outside.risor"), filepath.Join(scratch, "outside.risor"), filepath.Join(scratch, "sandbox", "root.risor")} {
			goos.WriteFile(p, []byte("tick(\"OUTSIDE\")\n"), 0o644)
		}
		imp = importer.NewLocalImporter(importer.LocalImporterOptions{GlobalNames: names, SourceDir: root, Extensions: []string{".risor", ".rsr"}})
	} else {
		imp = importer.NewFSImporter(importer.FSImporterOptions{GlobalNames: names, SourceFS: sfs, Extensions: []string{".risor", ".rsr"}})
	}
	opts := []risor.Option{risor.WithoutDefaultGlobals(), risor.WithGlobals(globals), risor.WithConcurrency(), risor.WithImporter(imp)}

	sched := rc.Tape.Stream("sched")
	strat := sim.DrawStrategy(sched, 200)
	s := sim.New(sched, strat, 30000)
	localFailLeft := map[string]int{}
	s.FaultFn = func(site, detail string) error {
		if site == "importer.read" && localFailLeft[detail] > 0 {
			localFailLeft[detail]--
			rc.Hit("fault_local_read_error")
			return errors.New("sim-injected: read error")
		}
		return nil
	}

	main := prog.Main
	expected := "[" + strings.Join(prog.Expected, ", ") + "]"
	hostile := ""
	hostileGenerated := false
	nworkers := 0
	preImport := false
	switch {
	case mode == 0:
		if g.Bool() {
			hostile = hostileImports[g.Intn(len(hostileImports))]
		} else {
			// a path text assembled from escaping, odd and legal pieces: it need
			// not be rejected (it may name a module under the root), but whatever
			// is read must lie under the root
			hostile = genHostileImport(g, prog)
			hostileGenerated = true
		}
		main = hostile + "\n\"reached\"\n"
		if hostileGenerated {
			// if the odd spelling is accepted it names some file under the root:
			// ordinary imports of every module follow, and no module body may run
			// twice whatever the first statement was taken to mean
			var b strings.Builder
			b.WriteString(hostile + "\n")
			for i, m := range prog.Mods {
				st, _ := importStmt(m, g.Intn(5), fmt.Sprintf("hz%d", i))
				b.WriteString(st + "\n")
			}
			b.WriteString("\"reached\"\n")
			main = b.String()
		}
	case mode <= 2:
		// concurrent importers: each goroutine imports the same modules and
		// bumps them once; afterwards main imports them and reads the states
		nworkers = g.Range(2, 4)
		var b strings.Builder
		var targets []int
		for i := range prog.Mods {
			if g.Bool() || len(targets) == 0 {
				targets = append(targets, i)
			}
		}
		// in half of the runs the spawning script has already imported the
		// modules: the goroutines' imports must then find them (one body run,
		// one shared state), which does not depend on the known finding
		preImport = g.Bool()
		if preImport {
			for k, i := range targets {
				st, _ := importStmt(prog.Mods[i], g.Intn(5), fmt.Sprintf("pre%d", k))
				b.WriteString(st + "\n")
			}
		}
		// module state is shared between the goroutines, and a bump is a
		// read-modify-write over several instructions: the script serialises the
		// bumps with a one-slot channel (unsynchronised sharing is the script's
		// own responsibility)
		b.WriteString("lock := chan(1)\nfunc worker() {\n")
		for k, i := range targets {
			st, bind := importStmt(prog.Mods[i], g.Intn(3), fmt.Sprintf("w%d", k))
			fmt.Fprintf(&b, "  %s\n  lock <- 1\n  %s.bump()\n  <-lock\n", st, bind)
		}
		b.WriteString("  return 1\n}\nts := []\n")
		fmt.Fprintf(&b, "for i := 0; i < %d; i++ { ts.append(spawn(worker)) }\n", nworkers)
		b.WriteString("for _, t := range ts { t.wait() }\nobs := []\n")
		mm := &modModel{loaded: map[int]bool{}, state: map[int]int{}, ticks: map[int]int{}}
		for _, i := range targets {
			mm.imp(prog.Mods, i)
		}
		var exp []string
		for k, i := range targets {
			st, bind := importStmt(prog.Mods[i], 2, fmt.Sprintf("r%d", k))
			fmt.Fprintf(&b, "%s\nobs.append(%s.get())\n", st, bind)
			_ = i
		}
		// expected: bumps from all workers are visible (one shared module state)
		for _, i := range targets {
			mm.state[i] += nworkers
		}
		for _, i := range targets {
			exp = append(exp, fmt.Sprint(mm.state[i]))
		}
		b.WriteString("obs\n")
		main = b.String()
		expected = "[" + strings.Join(exp, ", ") + "]"
		prog.Model = mm
		prog.FaultMod = -1
	}
	if prog.FaultMod >= 0 && mode > 2 {
		file := prog.Mods[prog.FaultMod].Path + ".risor"
		if useLocal {
			localFailLeft[filepath.Join(root, file)] = 1
		} else if prog.FaultKind == "open-error" {
			sfs.FailOpen[file] = 1
		} else if prog.FaultKind == "read-error" {
			sfs.FailRead[file] = 1
		}
		if prog.FaultKind == "body-error" {
			localFailLeft = map[string]int{}
			th.failLeft[prog.Mods[prog.FaultMod].Path] = 1
			th2.failLeft[prog.Mods[prog.FaultMod].Path] = 1
			// the body runs again on the retry: tolerated (the first import failed)
			prog.Model.ticks[prog.FaultMod]++
		}
		rc.Hit("fault_import_" + prog.FaultKind)
	}

	ctx, cancel := context.WithCancel(context.Background())
	// A pooled VM: the host compiles the script once and evaluates the same code
	// object twice on one VM, the second time with another import root holding
	// different files under the same names. The second evaluation must load
	// from ITS root only and start from fresh module state.
	pooled := mode >= 3 && !shared && prog.FaultMod < 0 && g.Chance(1, 4)
	var out *EvalOutcome
	var out3 *EvalOutcome
	th3 := &tickHost{ticks: map[string]int{}, failLeft: map[string]int{}}
	sfsB := NewSimFS()
	opensAfterFirst := -1
	if pooled {
		rc.Hit("mode_pooled_vm_root_swap")
		for i, m := range prog.Mods {
			// same names, other contents: every body reports itself as "B:<path>"
			sfsB.Files[m.Path+".risor"] = strings.Replace(moduleSource(prog.Mods, i), fmt.Sprintf("tick(%q)", m.Path), fmt.Sprintf("tick(%q)", "B:"+m.Path), 1)
		}
		sfsB.Files["twa/tw.risor"] = sfs.Files["twa/tw.risor"]
		sfsB.Files["twb/tw.risor"] = sfs.Files["twb/tw.risor"]
		sfsB.Files["nestmod.risor"] = strings.Replace(sfs.Files["nestmod.risor"], "tick(\"nestmod\")", "tick(\"B:nestmod\")", 1)
		impB := importer.NewFSImporter(importer.FSImporterOptions{GlobalNames: names, SourceFS: sfsB, Extensions: []string{".risor", ".rsr"}})
		g3 := baseGlobals(map[string]any{"tick": th3.builtin(), "maybe_fail": th3.failBuiltin()})
		opts3 := []risor.Option{risor.WithoutDefaultGlobals(), risor.WithGlobals(g3), risor.WithConcurrency(), risor.WithImporter(impB)}
		machine, err := vm.NewEmpty()
		if err != nil {
			panic("harness: " + err.Error())
		}
		cfg := risor.NewConfig(opts...)
		astMain, err := parser.Parse(context.Background(), main)
		if err != nil {
			panic("harness: " + err.Error())
		}
		codeMain, err := compiler.Compile(astMain, cfg.CompilerOpts()...)
		if err != nil {
			panic("harness: " + err.Error())
		}
		out = &EvalOutcome{}
		out3 = &EvalOutcome{}
		// the pool's evaluations run under the run's context or (half of the
		// time) under one that can never be cancelled
		pctx := ctx
		if g.Bool() {
			pctx = context.Background()
			rc.Hit("pooled_background_context")
		}
		s.Go("main", "main", func() {
			guard(out, func() (object.Object, error) {
				return risor.EvalCode(pctx, codeMain, append(append([]risor.Option{}, opts...), risor.WithVM(machine))...)
			})
			opensAfterFirst = len(sfs.Opens)
			if useLocal {
				opensAfterFirst = len(s.Notes)
			}
			guard(out3, func() (object.Object, error) {
				return risor.EvalCode(pctx, codeMain, append(append([]risor.Option{}, opts3...), risor.WithVM(machine))...)
			})
		})
	} else {
		out = evalTask(s, "main", ctx, main, opts)
	}
	var out2 *EvalOutcome
	if shared {
		if prog.FaultMod >= 0 && prog.FaultKind != "body-error" {
			// the storage fault must hit each evaluation's first attempt: that is
			// only well defined for one evaluation, so no storage fault here
			shared = false
		} else {
			g2 := baseGlobals(map[string]any{"tick": th2.builtin(), "maybe_fail": th2.failBuiltin()})
			opts2 := []risor.Option{risor.WithoutDefaultGlobals(), risor.WithGlobals(g2), risor.WithConcurrency(), risor.WithImporter(imp)}
			out2 = evalTask(s, "main2", ctx, main, opts2)
			rc.Hit("mode_shared_importer")
		}
	}
	s.Until = func() bool {
		return out.Done && (out2 == nil || out2.Done) && (out3 == nil || out3.Done) && len(aliveExcept(s, "vm.watcher", "file.watcher")) == 0
	}
	verdict := s.Run()
	s.Shutdown(cancel)
	rc.AbsorbSim(s, strat.Name())
	rc.Digest ^= sim.HashString(main)

	modsSrc := map[string]string{}
	for i, m := range prog.Mods {
		modsSrc[m.Path+".risor"] = moduleSource(prog.Mods, i)
	}
	imptype := "FSImporter/SimFS"
	if useLocal {
		imptype = "LocalImporter/scratch-tree"
	}
	rc.Sample = map[string]any{"main": main, "modules": modsSrc, "importer": imptype, "result": out.String(), "expected": expected, "ticks": fmt.Sprint(th.ticks), "strategy": strat.Name()}
	rc.Hit("importer_" + map[bool]string{true: "local", false: "fs"}[useLocal])
	switch {
	case mode == 0:
		rc.Hit("mode_hostile")
	case mode <= 2:
		rc.Hit("mode_concurrent")
		if preImport {
			rc.Hit("mode_concurrent_preimported")
		}
	default:
		rc.Hit("mode_sequential")
	}

	if out.Panic != nil {
		rc.Violate("panic/api", "panic reached the caller: %v", out.Panic)
		return
	}
	if verdict != sim.Done || !out.Done {
		rc.Violate("liveness/import-hung", "evaluation did not finish (verdict %s)", verdict)
		return
	}
	// ---- clause 1: confinement (every mode)
	if th.ticks["OUTSIDE"] > 0 {
		rc.Violate("confinement/outside-module-ran", "a module outside the import root was executed (%s): program %q", imptype, main)
		return
	}
	if useLocal {
		rootClean := filepath.Clean(root) + string(filepath.Separator)
		for _, n := range s.Notes {
			if n.Site != "importer.read" {
				continue
			}
			p := filepath.Clean(n.Detail)
			if !strings.HasPrefix(p, rootClean) {
				rc.Violate("confinement/read-outside-root", "LocalImporter read %q, outside root %q (program %q)", n.Detail, root, main)
				return
			}
		}
		rc.Count("local_reads_observed", len(s.Notes))
	} else {
		if len(sfs.Invalid) > 0 {
			rc.Violate("confinement/invalid-fs-name", "FSImporter asked the filesystem for invalid (escaping or unclean) names %q (program %q)", sfs.Invalid, main)
			return
		}
		rc.Count("fs_opens_observed", len(sfs.Opens))
	}
	if mode == 0 {
		rc.NonTrivial = true
		if hostileGenerated {
			rc.Hit("mode_hostile_generated")
			if out.Err == nil {
				rc.Hit("hostile_generated_accepted_inside_root")
			}
			for _, m := range prog.Mods {
				if th.ticks[m.Path] > 1 {
					rc.Violate("once/odd-spelling", "module %s ran its top-level code %d times in one evaluation (program %q)", m.Path, th.ticks[m.Path], main)
					return
				}
			}
			return
		}
		if out.Err == nil {
			rc.Violate("confinement/hostile-spelling-accepted", "hostile import %q was accepted: %s", hostile, out.String())
		}
		return
	}
	if out.Err != nil {
		rc.Violate("error/unexpected", "program failed: %v", out.Err)
		return
	}
	if th.ticks["nestmod"] > 1 {
		rc.Violate("once/nested-spawn-after-import", "a module first imported by a goroutine ran its top-level code %d times: the goroutine it spawned afterwards imported it again (program %q)", th.ticks["nestmod"], main)
		return
	}
	// ---- clause 2: a module body runs at most once per evaluation
	nimports := strings.Count(main, "import ")
	rc.NonTrivial = nimports >= 2 || sfs.Injected > 0
	var over []string
	for i, m := range prog.Mods {
		allowed := 1
		if prog.Model.ticks[i] > 1 {
			allowed = prog.Model.ticks[i] // a body that failed may run again on the retry
		}
		if th.ticks[m.Path] > allowed {
			over = append(over, fmt.Sprintf("%s x%d", m.Path, th.ticks[m.Path]))
		}
	}
	if len(over) > 0 {
		cls := "once/sequential"
		if nworkers > 0 {
			cls = "once/concurrent-importers"
			if preImport {
				cls = "once/goroutine-reimport-of-loaded-module"
			}
		}
		rc.Violate(cls, "module bodies ran more than once in one evaluation: %v", over)
		return
	}
	for i, m := range prog.Mods {
		if prog.Model.ticks[i] != th.ticks[m.Path] {
			rc.Violate("once/model-mismatch", "module %s body ran %d times, model says %d", m.Path, th.ticks[m.Path], prog.Model.ticks[i])
			return
		}
	}
	// ---- clauses 3, 4, 5: shared state through every alias, distinct globals,
	// clean retry after an injected failure
	if out2 != nil {
		if out2.Panic != nil || out2.Err != nil {
			rc.Violate("shared-importer/second-evaluation-failed", "a second evaluation sharing the importer failed: %s", out2.String())
			return
		}
		for i, m := range prog.Mods {
			if prog.Model.ticks[i] != th2.ticks[m.Path] {
				rc.Violate("shared-importer/once", "second evaluation sharing the importer: module %s body ran %d times, model says %d", m.Path, th2.ticks[m.Path], prog.Model.ticks[i])
				return
			}
		}
		if g2 := safeInspect(out2.Result); g2 != expected {
			rc.Violate("shared-importer/state", "second evaluation sharing the importer observed %s, import-once model says %s (first evaluation: %s)", g2, expected, out.String())
			return
		}
	}
	if out3 != nil {
		if out3.Panic != nil || out3.Err != nil {
			rc.Violate("pooled-vm/second-evaluation-failed", "the second evaluation of the same code on the pooled VM failed: %s", out3.String())
			return
		}
		// confinement to the import root configured for THIS evaluation
		for _, m := range prog.Mods {
			if th3.ticks[m.Path] > 0 {
				rc.Violate("pooled-vm/module-of-previous-root-ran", "second evaluation (import root B): the body of %s from the first evaluation's root ran", m.Path)
				return
			}
		}
		if useLocal {
			if len(s.Notes) != opensAfterFirst {
				rc.Violate("pooled-vm/read-from-previous-root", "second evaluation (import root B) read %d file(s) through the first evaluation's importer", len(s.Notes)-opensAfterFirst)
				return
			}
		} else if len(sfs.Opens) != opensAfterFirst {
			rc.Violate("pooled-vm/read-from-previous-root", "second evaluation (import root B) opened %v in the first evaluation's root", sfs.Opens[opensAfterFirst:])
			return
		}
		for i, m := range prog.Mods {
			if th3.ticks["B:"+m.Path] != prog.Model.ticks[i] {
				rc.Violate("pooled-vm/once", "second evaluation on the pooled VM: module %s (root B) body ran %d times, model says %d", m.Path, th3.ticks["B:"+m.Path], prog.Model.ticks[i])
				return
			}
		}
		if g3 := safeInspect(out3.Result); g3 != expected {
			rc.Violate("pooled-vm/state", "second evaluation of the same code on the pooled VM observed %s, import-once model says %s", g3, expected)
			return
		}
	}
	got := safeInspect(out.Result)
	if got != expected {
		if out2 != nil {
			rc.Violate("shared-importer/state", "first of two evaluations sharing the importer observed %s, import-once model says %s", got, expected)
			return
		}
		cls := "state/sequential"
		if nworkers > 0 {
			cls = "state/concurrent-importers"
			if preImport {
				cls = "state/goroutine-reimport-of-loaded-module"
			}
		} else if prog.FaultMod >= 0 {
			cls = "state/after-failed-import"
		}
		rc.Violate(cls, "observations %s, import-once model says %s", got, expected)
		return
	}
}
