package checks

import (
	"context"
	"fmt"
	"github.com/risor-io/risor/importer"
	goos "os"
	"sort"
	"strings"
	"sync"
	"testing/fstest"
	"time"

	"github.com/risor-io/risor"
	"github.com/risor-io/risor/compiler"
	"github.com/risor-io/risor/object"
	"github.com/risor-io/risor/parser"
	"github.com/risor-io/risor/verif/fw"
	"github.com/risor-io/risor/verif/sim"
	"github.com/risor-io/risor/vm"
)

// ---------------------------------------------------------------------------
// REPL driver: a restatement of cmd/risor/repl.getEvaluator (unexported and
// keyboard-driven): parse -> Compile on ONE compiler -> Run on ONE VM -> on a
// run-time error move the instruction pointer to the end of the code.

type replSession struct {
	cfg *risor.Config
	c   *compiler.Compiler
	v   *vm.VirtualMachine
}

type pieceResult struct {
	Stage string // "", "parse", "compile", "run", "panic"
	Err   string
	Val   string
}

func (r pieceResult) String() string {
	if r.Stage != "" {
		return fmt.Sprintf("%s-error(%s)", r.Stage, r.Err)
	}
	return r.Val
}

func (rs *replSession) feed(ctx context.Context, src string) (res pieceResult) {
	defer func() {
		if r := recover(); r != nil {
			res = pieceResult{Stage: "panic", Err: fmt.Sprint(r)}
		}
	}()
	if rs.c == nil {
		c, err := compiler.New(rs.cfg.CompilerOpts()...)
		if err != nil {
			panic(err)
		}
		rs.c = c
	}
	ast, err := parser.Parse(ctx, src)
	if err != nil {
		return pieceResult{Stage: "parse", Err: err.Error()}
	}
	code, err := rs.c.Compile(ast)
	if err != nil {
		return pieceResult{Stage: "compile", Err: err.Error()}
	}
	if rs.v == nil {
		rs.v = vm.New(code, rs.cfg.VMOpts()...)
	}
	if err := rs.v.Run(ctx); err != nil {
		rs.v.SetIP(code.InstructionCount())
		return pieceResult{Stage: "run", Err: err.Error()}
	}
	tos, ok := rs.v.TOS()
	if !ok || tos == nil {
		return pieceResult{Val: "nil"}
	}
	return pieceResult{Val: safeInspect(tos)}
}

// globals returns name -> Inspect for every script-defined global.
func (rs *replSession) globals(skip map[string]bool) map[string]string {
	out := map[string]string{}
	if rs.v == nil {
		return out
	}
	for _, name := range rs.v.GlobalNames() {
		if skip[name] || strings.HasPrefix(name, "scratch") {
			continue
		}
		obj, err := rs.v.Get(name)
		switch {
		case err != nil:
			out[name] = "<Get error: " + err.Error() + ">"
		case obj == nil:
			out[name] = "<unset>"
		default:
			out[name] = safeInspect(obj)
		}
	}
	return out
}

// safeInspect renders a value; a value so corrupt that rendering it panics is
// reported as such (and then shows up as a difference), not as a harness crash.
func safeInspect(obj object.Object) (s string) {
	defer func() {
		if r := recover(); r != nil {
			s = fmt.Sprintf("<Inspect panicked: %v>", r)
		}
	}()
	return obj.Inspect()
}

func diffGlobals(a, b map[string]string) string {
	var d []string
	names := map[string]bool{}
	for k := range a {
		names[k] = true
	}
	for k := range b {
		names[k] = true
	}
	var ks []string
	for k := range names {
		ks = append(ks, k)
	}
	sort.Strings(ks)
	for _, k := range ks {
		av, aok := a[k]
		bv, bok := b[k]
		switch {
		case aok && !bok:
			d = append(d, fmt.Sprintf("%s: %s vs <absent>", k, av))
		case !aok && bok:
			d = append(d, fmt.Sprintf("%s: <absent> vs %s", k, bv))
		case av != bv:
			d = append(d, fmt.Sprintf("%s: %s vs %s", k, av, bv))
		}
	}
	return strings.Join(d, "; ")
}

// ---------------------------------------------------------------------------

type replPiece struct {
	Src        string
	Fault      string // "" for ordinary pieces
	Effective  string // what W and A0 see of this piece ("" = nothing)
	HasValue   bool   // ends with an expression statement whose value is compared
	Delta      int    // cancel/deadline: steps after the piece starts
	Stale      map[int]int
	Background bool // the piece runs under context.Background(), which can never be cancelled
	AtImport   bool // cancel fault aimed at the park just before the importer is asked
}

func genSession(g, f *sim.Stream, tier string) (pieces []*replPiece, finalExpr string) {
	cg := newCoreGen(g)
	maxN := 12
	if tier == "thorough" {
		maxN = 30
	}
	stmts := cg.Program(g.Range(2, maxN))
	stmts = c18Extras(g, stmts)
	// partition into consecutive pieces
	var cur []string
	var curDefs [][]string
	type ord struct {
		src  string
		defs []string
	}
	var ords []ord
	flush := func() {
		if len(cur) == 0 {
			return
		}
		var defs []string
		for _, d := range curDefs {
			defs = append(defs, d...)
		}
		ords = append(ords, ord{strings.Join(cur, "\n"), defs})
		cur, curDefs = nil, nil
	}
	for _, st := range stmts {
		cur = append(cur, st.Src)
		curDefs = append(curDefs, st.Defines)
		if g.Chance(1, 2) {
			flush()
		}
	}
	flush()
	// known definitions before each ordinary piece, for value expressions
	var defined []string
	isVar := func(n string) bool { return strings.HasPrefix(n, "v") || strings.HasPrefix(n, "k") }
	for i, o := range ords {
		p := &replPiece{Src: o.src, Effective: o.src, Stale: map[int]int{}}
		defined = append(defined, o.defs...)
		if g.Bool() {
			var vs []string
			for _, n := range defined {
				if isVar(n) {
					vs = append(vs, n)
				}
			}
			if len(vs) > 4 {
				vs = vs[len(vs)-4:]
			}
			expr := "[" + strings.Join(append(vs, fmt.Sprint(i)), ", ") + "]"
			p.Src += "\n" + expr
			p.Effective = p.Src
			p.HasValue = true
		}
		pieces = append(pieces, p)
	}
	finalExpr = cg.FinalExpr()

	// names defined by later pieces, per position
	laterDefs := func(pos int) []string {
		var out []string
		for _, o := range ords[pos:] {
			out = append(out, o.defs...)
		}
		return out
	}
	earlierFuncs := func(pos int) []string {
		var out []string
		for _, o := range ords[:pos] {
			for _, d := range o.defs {
				if strings.HasPrefix(d, "f") {
					out = append(out, d)
				}
			}
		}
		return out
	}
	earlierIntVars := func(pos int) []string {
		var out []string
		for _, v := range cg.vars {
			if v.T != tInt || v.Const {
				continue
			}
			for _, o := range ords[:pos] {
				for _, d := range o.defs {
					if d == v.Name {
						out = append(out, d)
					}
				}
			}
		}
		return out
	}
	// fault pieces
	nf := f.Intn(4)
	if threadWrite {
		nf = 0
	}
	type ins struct {
		pos int
		p   *replPiece
	}
	var inserts []ins
	for i := 0; i < nf; i++ {
		pos := f.Intn(len(ords) + 1) // inserted before ordinary piece `pos`
		id := 9000 + i*10
		fp := &replPiece{Stale: map[int]int{}}
		later := laterDefs(pos)
		switch f.Intn(20) {
		case 17:
			// cancelled while the piece sits at an import (the importer then
			// parses the module under a context that is already over)
			fp.Fault = "cancel"
			fp.AtImport = true
			fp.Src = fmt.Sprintf("import rmod as scratchi%d\nscratchk%d := 0\nfor { scratchk%d = scratchk%d + 1 }", i, i, i, i)
			fp.Delta = 150 + f.Intn(200)
		case 18:
			// rejected after it imported a module under the name of an existing global
			fp.Fault = "compile-undefined"
			name := "hcount"
			if vs := earlierIntVars(pos); len(vs) > 0 && f.Bool() {
				name = vs[f.Intn(len(vs))]
			}
			fp.Src = []string{
				fmt.Sprintf("import rmod as %s; undefined_i%d", name, i),
				fmt.Sprintf("from rmod import get as %s; undefined_j%d", name, i),
				fmt.Sprintf("scratchh%d := func %s() { return 1 }; undefined_k%d", i, name, i),
			}[f.Intn(3)]
		case 19:
			// fails at run time inside a function that has already made a closure
			fp.Fault = "runtime"
			fp.Src = fmt.Sprintf("mark(%d, 4); func scratchf%d() { c := 0; inc := func() { c++; return c }; inc(); error(\"rt-closure-%d\"); return inc }; scratchf%d()", id, i, i, i)
			fp.Effective = fmt.Sprintf("mark(%d, 4)", id)
		case 16:
			// rejected for its parameter list, before the body is looked at
			fp.Fault = "compile-undefined"
			fp.Src = fmt.Sprintf("mark(%d, 1); ", id) + []string{
				fmt.Sprintf("func tmpp%d(a=1, b) { return a }", i),
				fmt.Sprintf("func tmpp%d(a=[1]) { return a }", i),
				fmt.Sprintf("func tmpp%d(a, a) { return a }", i),
				fmt.Sprintf("func outerp%d() { inner := func(x=1, y) { return x }; return inner }", i),
			}[f.Intn(4)]
		case 14:
			// rejected inside a function literal that is a later pipe stage
			fp.Fault = "compile-undefined"
			fp.Src = fmt.Sprintf("mark(%d, 1); %d | func(v) { return undefined_p%d(v) }", id, 40+i, i)
		case 15:
			// the piece fails while a submodule it from-imports is being evaluated
			fp.Fault = "runtime"
			fp.Src = fmt.Sprintf("mark(%d, 4); arm(); from pkg import flaky as scratchf%d; disarm(); error(\"rt-from-%d\")", id, i, i)
			fp.Effective = fmt.Sprintf("mark(%d, 4)", id)
		case 12:
			// the piece fails while a module it imports is being evaluated (the
			// host makes the module body fail this once)
			fp.Fault = "runtime"
			fp.Src = fmt.Sprintf("mark(%d, 4); arm(); import rmod as scratchm%d; disarm(); error(\"rt-imp-%d\")", id, i, i)
			fp.Effective = fmt.Sprintf("mark(%d, 4)", id)
		case 13:
			// the piece imports a module whose body always fails half-way
			fp.Fault = "runtime"
			fp.Src = fmt.Sprintf("mark(%d, 4); import badcfg as scratchb%d; mark(%d, 5)", id, i, id+1)
			fp.Effective = fmt.Sprintf("mark(%d, 4)", id)
		case 11:
			// rejected piece whose block-scoped variable shadows a global
			fp.Fault = "compile-undefined"
			name := fmt.Sprintf("vy%d", i)
			if vs := earlierIntVars(pos); len(vs) > 0 {
				name = vs[f.Intn(len(vs))]
			}
			switch f.Intn(7) {
			case 5, 6:
				// the rejected piece introduces string and float constants
				fp.Src = fmt.Sprintf("mark(%d, 1); tmpc%d := {%s: %s, %s: %s}; undefined_k%d", id, i, poolString(f), poolFloat(f), poolString(f), poolFloat(f), i)
			case 3, 4:
				// the rejected piece introduces an attribute name before failing
				attr := []string{"append", "reverse", "copy", "count", "index", "sort", "filter", "pop", "map", "each", "extend"}[f.Intn(11)]
				fp.Src = fmt.Sprintf("mark(%d, 1); [1, 2].%s(undefined_a%d)", id, attr, i)
			case 0:
				fp.Src = fmt.Sprintf("for %s := 0; %s < 2; %s++ { mark(%d, 1); undefined_b%d }", name, name, name, id, i)
			case 1:
				fp.Src = fmt.Sprintf("if true { %s := 3; mark(%d, %s); undefined_c%d }", name, id, name, i)
			default:
				fp.Src = fmt.Sprintf("func tmpg%d(%s) { return %s + undefined_d%d }", i, name, name, i)
			}
		case 0:
			fp.Fault = "syntax"
			fp.Src = []string{"x := := 3", "func (", "if { ", "mark(1, 2", "[1, 2", "for i := 0; i < ; { }"}[f.Intn(6)]
		case 1:
			fp.Fault = "compile-undefined"
			fp.Src = fmt.Sprintf("mark(%d, 1); undefined_name_%d", id, i)
		case 2:
			fp.Fault = "compile-shadow"
			name := fmt.Sprintf("vz%d", i)
			if len(later) > 0 {
				name = later[f.Intn(len(later))]
			}
			fp.Src = fmt.Sprintf("%s := 5; undefined_q%d", name, i)
		case 3:
			fp.Fault = "compile-const"
			name := fmt.Sprintf("kz%d", i)
			if len(later) > 0 && f.Bool() {
				name = later[f.Intn(len(later))]
			}
			fp.Src = fmt.Sprintf("const %s = 1; %s = 2", name, name)
		case 4:
			fp.Fault = "compile-redef"
			fs := earlierFuncs(pos)
			if len(fs) > 0 {
				fp.Src = fmt.Sprintf("mark(%d, 2); func %s() { return 1 }", id, fs[f.Intn(len(fs))])
			} else {
				fp.Fault = "compile-undefined"
				fp.Src = fmt.Sprintf("func tmpf%d() { mark(%d, 3); return undefined_w%d }; tmpf%d()", i, id, i, i)
			}
		case 5, 6:
			fp.Fault = "runtime"
			eff := fmt.Sprintf("mark(%d, 4)", id)
			if vs := earlierIntVars(pos); len(vs) > 0 {
				eff += fmt.Sprintf("; %s = %s + 1", vs[0], vs[0])
			}
			tail := []string{fmt.Sprintf("error(\"rt-%d\")", i), "[1][5]", "1 + \"a\"", fmt.Sprintf("scratchq%d := 1; scratchq%d.foo()", i, i)}[f.Intn(4)]
			fp.Src = fmt.Sprintf("%s; %s; mark(%d, 5)", eff, tail, id+1)
			fp.Effective = eff
		case 7:
			fp.Fault = "hostfail"
			fp.Src = fmt.Sprintf("mark(%d, 6); hfail(); mark(%d, 7)", id, id+1)
			fp.Effective = fmt.Sprintf("mark(%d, 6)", id)
		case 8:
			fp.Fault = "hostpanic"
			fp.Src = fmt.Sprintf("mark(%d, 8); hpanic(%d); mark(%d, 9)", id, f.Intn(3), id+1)
			fp.Effective = fmt.Sprintf("mark(%d, 8)", id)
		case 9:
			fp.Fault = "cancel"
			fp.Src = fmt.Sprintf("scratch%d := 0; for scratchi%d := 0; scratchi%d < 100000000; scratchi%d++ { scratch%d = scratch%d + 1 }", i, i, i, i, i, i)
			fp.Delta = 1 + f.Intn(200)
		default:
			fp.Fault = "deadline"
			fp.Src = fmt.Sprintf("scratch%d := 0; for { scratch%d = scratch%d + 1 }", i, i, i)
			fp.Delta = 1 + f.Intn(200)
		}
		inserts = append(inserts, ins{pos, fp})
	}
	sort.SliceStable(inserts, func(a, b int) bool { return inserts[a].pos < inserts[b].pos })
	var out []*replPiece
	k := 0
	for pos := 0; pos <= len(pieces); pos++ {
		for k < len(inserts) && inserts[k].pos == pos {
			out = append(out, inserts[k].p)
			k++
		}
		if pos < len(pieces) {
			out = append(out, pieces[pos])
		}
	}
	for _, p := range out {
		if p.Fault == "" && f.Chance(1, 4) {
			p.Background = true
		}
	}
	// stale cancels of earlier pieces' contexts during later pieces
	for i := range out {
		if crossThreads {
			break
		}
		for j := 0; j < i; j++ {
			if f.Chance(1, 6) {
				out[i].Stale[j] = f.Intn(120)
			}
		}
	}
	return out, finalExpr
}

// c18Extras weaves statements about host-provided data globals and about
// imported modules into the generated program (in order, at seeded positions).
// crossThreads is set by c18Extras when the session has threads that outlive
// the piece that started them (stale cancels of that piece's context would
// then, rightly, end them: such sessions get no stale cancels).
var crossThreads bool

// threadWrite is set by c18Extras when a thread started by one statement
// assigns to a global after later statements have run: in a session those later
// statements may arrive in later pieces. Such sessions get no fault pieces, and
// the one global (twv) and its one mark (id c18TwMark) are judged by
// themselves, apart from everything else.
var threadWrite bool

const c18TwMark = 7999

func c18Extras(g *sim.Stream, stmts []Stmt) []Stmt {
	crossThreads = false
	threadWrite = false
	var extra []Stmt
	id := 7000
	mark := func(expr string) Stmt {
		id++
		return Stmt{Src: fmt.Sprintf("mark(%d, %s)", id, expr)}
	}
	if g.Chance(1, 3) {
		// globals the host supplied (risor.WithGlobals) and the script rebinds
		for i, n := 0, g.Range(2, 6); i < n; i++ {
			switch g.Intn(7) {
			case 0:
				extra = append(extra, Stmt{Src: fmt.Sprintf("hcount = hcount + %d", g.Range(1, 9))})
			case 1:
				extra = append(extra, Stmt{Src: fmt.Sprintf("hcount += %d", g.Range(1, 9))})
			case 2:
				extra = append(extra, Stmt{Src: "hcount++"})
			case 3:
				extra = append(extra, Stmt{Src: fmt.Sprintf("htag = htag + \"%c\"", 'a'+rune(g.Intn(6)))})
			case 4:
				extra = append(extra, mark("hcount"))
			case 5:
				extra = append(extra, Stmt{Src: "emits(htag)"})
			default:
				extra = append(extra, Stmt{Src: fmt.Sprintf("hlist = hlist + [%d]", g.Intn(9))}, mark("len(hlist)"))
			}
		}
	}
	if g.Chance(1, 3) {
		// modules: one whose body can be made to fail once (by a fault piece), one
		// whose body always fails half-way
		if g.Bool() {
			extra = append(extra, Stmt{Src: "func impb() { import badcfg; return badcfg.late }", Defines: []string{"impb"}})
			for i, n := 0, g.Range(1, 3); i < n; i++ {
				extra = append(extra, mark("try(impb, func(e) { return -1 })"))
			}
		}
		if g.Bool() {
			extra = append(extra, Stmt{Src: "from pkg import flaky"}, mark("flaky.val"))
			if g.Bool() {
				extra = append(extra, Stmt{Src: "from pkg import flaky as fl2"}, mark("fl2.twice(3)"))
			}
		}
		if g.Bool() {
			switch g.Intn(3) {
			case 0:
				extra = append(extra, Stmt{Src: "import rmod"})
			case 1:
				extra = append(extra, Stmt{Src: "import rmod as rmod"})
			default:
				extra = append(extra, Stmt{Src: "from rmod import get as rget, bump as rbump\nimport rmod"})
			}
			for i, n := 0, g.Range(1, 4); i < n; i++ {
				switch g.Intn(3) {
				case 0:
					extra = append(extra, mark("rmod.get()"))
				case 1:
					extra = append(extra, Stmt{Src: "rmod.bump()"}, mark("rmod.n"))
				default:
					extra = append(extra, mark("[rmod.first, rmod.second]"))
				}
			}
		}
	}
	if g.Chance(1, 4) {
		// a thread started by one statement lives on across the pieces: it is
		// fed through a channel and waited for by later statements
		crossThreads = true
		extra = append(extra,
			Stmt{Src: "cq := chan(1)"},
			Stmt{Src: "tq := spawn(func() { got := <-cq; return got + 1 })"},
			Stmt{Src: fmt.Sprintf("cq <- %d", 40+g.Intn(5))},
			mark("tq.wait()"))
		if g.Bool() {
			extra = append(extra, Stmt{Src: "tz := spawn(func(a) { return a * 3 }, 7)"}, mark("tz.wait()"))
		}
	}
	if g.Chance(1, 6) {
		// a thread that assigns to a global once it is fed, which is after
		// later statements (in a session: possibly later pieces, which bring
		// new globals) have run
		crossThreads = true
		threadWrite = true
		extra = append(extra,
			Stmt{Src: "twv := 0"},
			Stmt{Src: "cw := chan(1)"},
			Stmt{Src: "tw := spawn(func() { got := <-cw; twv = got; return got })"},
			Stmt{Src: fmt.Sprintf("twpad%d := %d", g.Intn(3), g.Intn(9))},
			// (fed and waited for within one piece: when the assignment lands
			// relative to the next piece is then not left to the scheduler)
			Stmt{Src: fmt.Sprintf("cw <- %d\ntw.wait()", 60+g.Intn(5))},
			Stmt{Src: fmt.Sprintf("mark(%d, twv)", c18TwMark)})
	}
	if len(extra) == 0 {
		return stmts
	}
	// merge, keeping both orders
	var out []Stmt
	i, j := 0, 0
	for i < len(stmts) || j < len(extra) {
		if j >= len(extra) || (i < len(stmts) && g.Chance(len(stmts)-i, len(stmts)-i+len(extra)-j)) {
			out = append(out, stmts[i])
			i++
		} else {
			out = append(out, extra[j])
			j++
		}
	}
	return out
}

const c18Rmod = "n := 0\nfirst := 1\nmfail()\nsecond := 2\nfunc get() { return first + second }\nfunc bump() { n = n + 1; return n }\n"

var c18DirOnce sync.Once
var c18Dir string

// c18ModuleDir holds the session's modules as files, for LocalImporter.
func c18ModuleDir() string {
	c18DirOnce.Do(func() {
		base := goos.Getenv("VERIF_OUT")
		if base == "" {
			base = goos.TempDir()
		} else {
			base = dirOf(base)
		}
		d, err := goos.MkdirTemp(base, "c18mods-")
		if err != nil {
			panic("harness: " + err.Error())
		}
		goos.MkdirAll(d+"/pkg", 0o755)
		goos.WriteFile(d+"/rmod.risor", []byte(c18Rmod), 0o644)
		goos.WriteFile(d+"/badcfg.risor", []byte(c18Badcfg), 0o644)
		goos.WriteFile(d+"/pkg/flaky.risor", []byte(c18Flaky), 0o644)
		c18Dir = d
	})
	return c18Dir
}

const c18Flaky = "pre := 1\nmfail()\nval := 7\nfunc twice(x) { return x * 2 + pre - 1 }\n"
const c18Badcfg = "early := 1\n[1][5]\nlate := 2\n"

func hostFailBuiltin() *object.Builtin {
	return object.NewBuiltin("hfail", func(ctx context.Context, args ...object.Object) object.Object {
		return object.Errorf("host failure")
	})
}

func init() {
	fw.Register(&fw.Scenario{
		Property: "C18",
		Name:     "repl-sessions",
		Run:      runC18,
		Level:    "exploration",
		Rule: "one run = one generated program cut into consecutive pieces at tape-chosen statement boundaries and fed to ONE compiler and ONE VM through the REPL evaluator protocol, with 0..3 fault pieces inserted " +
			"(syntax error; compile error after good statements: undefined name, shadowing a later definition, constant reassignment, function redefinition; run-time error / failing or panicking host builtin after known effects; " +
			"cancellation or deadline inside a piece) and stale cancels of earlier pieces' contexts, under one seeded schedule. Three executions per history: W (whole program, one shot), A0 (fault-free session), A (session under test). " +
			"non-trivial = at least one fault piece or stale cancel; distinct = distinct hash of trace and piece/fault layout",
		Real: []string{"parser", "compiler.Compiler (incremental Compile)", "vm.VirtualMachine (Run, SetIP, TOS, Get, GlobalNames, reloadCode, importModule)", "importer.FSImporter", "risor.Config", "context"},
		Stub: []string{"REPL driver (restatement of cmd/risor/repl.getEvaluator)", "scheduler (sim)", "host builtins mark/emit/emits/hfail/hpanic"},
		Assumptions: []string{
			"the REPL driver mirrors cmd/risor/repl/repl.go:getEvaluator (parse, Compile, Run, SetIP(end) on run-time error)",
			"G-core programs define functions before use, so every split is in the property's domain; a history whose fault-free session A0 fails to compile is dropped on the evidence of A0 alone",
			"globals named scratch* (touched only by cancelled pieces) are excluded from comparisons",
		},
	})
}

func runC18(rc *fw.RunCtx) {
	g := rc.Tape.Stream("gen")
	f := rc.Tape.Stream("fault")
	pieces, finalExpr := genSession(g, f, rc.Tier)
	sched := rc.Tape.Stream("sched")
	strat := sim.DrawStrategy(sched, 300)
	s := sim.New(sched, strat, 80000)

	useLocalImporter := g.Chance(1, 3)
	if useLocalImporter {
		rc.Hit("importer_local")
	}
	mk := func() (*Host, *risor.Config, map[string]bool) {
		h := &Host{}
		armed := false
		extra := map[string]any{
			"mark": h.Recorder("mark"), "emit": h.RecorderRet("emit", 1), "emits": h.Recorder("emits"),
			"hfail": hostFailBuiltin(), "hpanic": hostPanicBuiltin(),
			// data globals supplied by the host, which the script may rebind
			"hcount": 0, "htag": "t", "hlist": []any{1, 2},
			"arm":    object.NewBuiltin("arm", func(ctx context.Context, args ...object.Object) object.Object { armed = true; return object.Nil }),
			"disarm": object.NewBuiltin("disarm", func(ctx context.Context, args ...object.Object) object.Object { armed = false; return object.Nil }),
			"mfail": object.NewBuiltin("mfail", func(ctx context.Context, args ...object.Object) object.Object {
				if armed {
					armed = false
					return object.Errorf("module body failed")
				}
				return object.Nil
			}),
		}
		var gnames []string
		for k := range baseGlobals(extra) {
			gnames = append(gnames, k)
		}
		sort.Strings(gnames)
		mfs := fstest.MapFS{"rmod.risor": &fstest.MapFile{Data: []byte(c18Rmod)}, "badcfg.risor": &fstest.MapFile{Data: []byte(c18Badcfg)}, "pkg/flaky.risor": &fstest.MapFile{Data: []byte(c18Flaky)}}
		var imp importer.Importer = importer.NewFSImporter(importer.FSImporterOptions{GlobalNames: gnames, SourceFS: mfs, Extensions: []string{".risor"}})
		if useLocalImporter {
			imp = importer.NewLocalImporter(importer.LocalImporterOptions{GlobalNames: gnames, SourceDir: c18ModuleDir(), Extensions: []string{".risor"}})
		}
		cfg := risor.NewConfig(append(baseOpts(extra), risor.WithImporter(imp))...)
		skip := map[string]bool{}
		for _, n := range cfg.GlobalNames() {
			skip[n] = true
		}
		for _, n := range []string{"hcount", "htag", "hlist"} {
			delete(skip, n)
		}
		if threadWrite {
			// judged through its one mark, apart from everything else: when
			// the thread's assignment lands relative to the next piece is up to
			// the schedule, and with it which globals array receives it
			skip["twv"] = true
		}
		return h, cfg, skip
	}
	bg := context.Background()

	// ---- A0: fault-free session (outside the scheduler: nothing is a task)
	hA0, cfgA0, skip := mk()
	a0 := &replSession{cfg: cfgA0}
	type a0rec struct {
		res     pieceResult
		globals map[string]string
		logLen  int
	}
	a0recs := map[int]a0rec{} // by index in pieces
	var effective []string
	for i, p := range pieces {
		if p.Effective == "" {
			continue
		}
		r := a0.feed(bg, p.Effective)
		if r.Stage == "parse" || r.Stage == "compile" {
			if p.Fault == "" {
				// outside the property's domain (decided on A0 alone)
				rc.Inconclusive = "split_outside_domain"
				rc.Sample = map[string]any{"piece": p.Effective, "a0": r.String()}
				return
			}
			// the effective part of a fault piece is generated to compile on its
			// own: if it does not, this tree (or the generator) is broken in a way
			// this run cannot judge
			rc.Inconclusive = "precondition_reference_session_failed"
			rc.Sample = map[string]any{"piece": p.Effective, "a0": r.String()}
			return
		}
		if r.Stage != "" {
			// The fault-free session failed at run time. If the same statements
			// run as ONE program succeed, that is the property's first clause
			// violated without any fault; if they fail as well, the generated
			// workload itself does not run on this tree and nothing can be judged.
			var all []string
			for _, q := range pieces {
				if q.Effective != "" {
					all = append(all, q.Effective)
				}
			}
			hW2, cfgW2, _ := mk()
			_ = hW2
			w2 := &replSession{cfg: cfgW2}
			if wr := w2.feed(bg, strings.Join(append(all, finalExpr), "\n")); wr.Stage == "" {
				rc.NonTrivial = true
				rc.Sample = map[string]any{"piece": p.Effective, "session": r.String(), "whole_program": wr.String()}
				rc.Violate("equivalence/session-piece-failed", "piece %d %q fails in the (fault-free) session with %s, but the same statements evaluated as one program succeed (%s)", i, p.Effective, r, wr)
				return
			}
			rc.Inconclusive = "precondition_reference_session_failed"
			rc.Sample = map[string]any{"piece": p.Effective, "a0": r.String()}
			return
		}
		effective = append(effective, p.Effective)
		a0recs[i] = a0rec{res: r, globals: a0.globals(skip), logLen: len(hA0.Events())}
	}
	a0final := a0.feed(bg, finalExpr)
	a0globals := a0.globals(skip)
	a0log := hA0.LogStrings()

	// ---- W: whole program, one shot, fresh compiler and VM
	hW, cfgW, _ := mk()
	w := &replSession{cfg: cfgW}
	wfinal := w.feed(bg, strings.Join(append(append([]string{}, effective...), finalExpr), "\n"))
	wglobals := w.globals(skip)
	wlog := hW.LogStrings()

	// ---- A: session under test, under the scheduler
	hA, cfgA, _ := mk()
	a := &replSession{cfg: cfgA}
	got := make([]pieceResult, len(pieces))
	gotGlobals := make([]map[string]string, len(pieces))
	gotLogLen := make([]int, len(pieces))
	ctxs := make([]context.Context, len(pieces))
	cancels := make([]context.CancelFunc, len(pieces))
	var afinal pieceResult
	finished := false
	cur := -1
	nfault := 0
	nstale := 0
	s.Go("main", "repl", func() {
		for i, p := range pieces {
			cur = i
			if p.Fault == "deadline" {
				ctxs[i], cancels[i] = context.WithTimeout(bg, 40*time.Millisecond)
			} else if p.Background {
				ctxs[i], cancels[i] = bg, func() {}
				rc.Hit("piece_under_background_context")
			} else {
				ctxs[i], cancels[i] = context.WithCancel(bg)
			}
			base := s.Step
			for _, j := range sortedIntKeys(p.Stale) {
				d := p.Stale[j]
				j := j
				nstale++
				s.AtStep(base+d, fmt.Sprintf("stale-cancel(ctx%d)", j), func() {
					rc.Hit("fault_stale_cancel")
					cancels[j]()
				})
			}
			switch p.Fault {
			case "cancel":
				i := i
				fire := func() {
					rc.Hit("fault_cancel")
					cancels[i]()
					s.SetStrategy(sim.Fair{})
				}
				if p.AtImport {
					rc.Hit("fault_cancel_at_import")
					s.AtNextSite("vm.import", "cancel", fire)
				}
				s.AtStep(base+p.Delta, "cancel", fire)
			case "deadline":
				s.AtStep(base+p.Delta, "advance-clock", func() {
					rc.Hit("fault_deadline")
					s.Advance(50 * time.Millisecond)
					s.SetStrategy(sim.Fair{})
				})
			}
			if p.Fault != "" {
				nfault++
				rc.Hit("fault_piece_" + p.Fault)
			}
			got[i] = a.feed(ctxs[i], p.Src)
			gotGlobals[i] = a.globals(skip)
			gotLogLen[i] = len(hA.Events())
			if p.Fault == "cancel" || p.Fault == "deadline" {
				s.SetStrategy(strat)
			}
		}
		cur = len(pieces)
		ctxF, cancelF := context.WithCancel(bg)
		defer cancelF()
		afinal = a.feed(ctxF, finalExpr)
		finished = true
	})
	s.Until = func() bool { return finished }
	verdict := s.Run()
	var cs []func()
	for _, c := range cancels {
		if c != nil {
			cs = append(cs, func() { c() })
		}
	}
	s.Shutdown(cs...)
	rc.AbsorbSim(s, strat.Name())
	rc.NonTrivial = nfault > 0 || nstale > 0
	// the layout of pieces and faults is part of what makes a run distinct
	layout := ""
	for _, p := range pieces {
		layout += p.Fault + "|" + fmt.Sprint(len(p.Src)) + ";"
	}
	rc.Digest ^= sim.HashString(layout)
	rc.Count("pieces", len(pieces))
	alog := hA.LogStrings()

	var lines []string
	for i, p := range pieces {
		tag := "piece"
		if p.Fault != "" {
			tag = "FAULT:" + p.Fault
		}
		line := fmt.Sprintf("%d [%s] %s => %s", i, tag, strings.ReplaceAll(p.Src, "\n", " ⏎ "), got[i])
		if len(p.Stale) > 0 {
			line += fmt.Sprintf(" stale-cancels=%v", p.Stale)
		}
		if len(line) > 400 {
			line = line[:400] + "…"
		}
		lines = append(lines, line)
	}
	rc.Sample = map[string]any{"session": lines, "final_expr": finalExpr, "final": afinal.String(), "strategy": strat.Name()}

	if verdict != sim.Done || !finished {
		what := "final expression"
		if cur >= 0 && cur < len(pieces) {
			what = fmt.Sprintf("piece %d [%s]", cur, pieces[cur].Fault)
		}
		rc.Violate("liveness/piece-hung", "%s did not return (verdict %s)", what, verdict)
		return
	}

	// ---- equivalence: A0 vs W
	if threadWrite {
		// the global a cross-piece thread assigns to is judged by itself
		twOf := func(globals map[string]string, log []string) string {
			obs := "global=" + globals["twv"]
			delete(globals, "twv")
			for i, l := range log {
				if strings.HasPrefix(l, fmt.Sprintf("mark[%d ", c18TwMark)) {
					obs += " " + l
					log[i] = fmt.Sprintf("mark[%d *]", c18TwMark)
				}
			}
			return obs
		}
		rc.Hit("theme_thread_write")
		twA0, twW := twOf(a0globals, a0log), twOf(wglobals, wlog)
		twOf(map[string]string{}, alog)
		skip["twv"] = true
		if twA0 != twW && a0final.String() == wfinal.String() && diffGlobals(a0globals, wglobals) == "" && strings.Join(a0log, "\n") == strings.Join(wlog, "\n") {
			rc.Violate("equivalence/thread-global-write-lost", "a thread started in an earlier piece assigned to a global after later pieces had brought new globals: the session sees %s, the whole program %s (everything else agrees)", twA0, twW)
			return
		}
	}
	if a0final.String() != wfinal.String() {
		rc.Violate("equivalence/final-value", "fault-free session ends with %s, whole program with %s", a0final, wfinal)
		return
	}
	if d := diffGlobals(a0globals, wglobals); d != "" {
		rc.Violate("equivalence/globals", "session vs whole program: %s", d)
		return
	}
	if strings.Join(a0log, "\n") != strings.Join(wlog, "\n") {
		rc.Violate("equivalence/log", "side-effect order differs between session (%d events) and whole program (%d events)", len(a0log), len(wlog))
		return
	}

	// ---- failure atomicity: A vs A0
	lastFault := "none"
	for i, p := range pieces {
		r := got[i]
		if r.Stage == "panic" {
			rc.Violate("panic/api", "piece %d [%s]: panic reached the REPL driver: %s", i, p.Fault, r.Err)
			return
		}
		switch p.Fault {
		case "":
			ref := a0recs[i]
			if r.Stage != "" {
				rc.Violate("atomicity/ordinary-piece-failed/after-"+lastFault, "piece %d %q failed with %s in the session with fault pieces; in the fault-free session it gives %s", i, p.Src, r, ref.res)
				return
			}
			if p.HasValue && r.Val != ref.res.Val {
				rc.Violate("atomicity/piece-value/after-"+lastFault, "piece %d value %s; fault-free session gives %s", i, r.Val, ref.res.Val)
				return
			}
		case "syntax":
			if r.Stage != "parse" {
				rc.Violate("fault-piece/not-rejected", "syntax-error piece %d %q gave %s", i, p.Src, r)
				return
			}
		case "compile-undefined", "compile-shadow", "compile-const", "compile-redef":
			if r.Stage != "compile" {
				rc.Violate("fault-piece/not-rejected", "piece %d %q should be rejected by the compiler; got %s", i, p.Src, r)
				return
			}
		case "runtime", "hostfail", "hostpanic":
			if r.Stage != "run" {
				rc.Violate("fault-piece/no-runtime-error", "piece %d %q should fail at run time; got %s", i, p.Src, r)
				return
			}
		case "cancel", "deadline":
			if r.Stage != "run" || !(strings.Contains(r.Err, "context canceled") || strings.Contains(r.Err, "context deadline exceeded")) {
				rc.Violate("fault-piece/cancel-not-reported", "cancelled piece %d gave %s", i, r)
				return
			}
		}
		// globals and log after every piece that has an A0 counterpart, and
		// after fault pieces compared with the last A0 state
		if ref, ok := a0recs[i]; ok {
			if d := diffGlobals(gotGlobals[i], ref.globals); d != "" {
				rc.Violate("atomicity/globals/after-"+lastFault, "after piece %d [%s] (session vs fault-free): %s", i, p.Fault, d)
				return
			}
			if gotLogLen[i] != ref.logLen || strings.Join(alog[:gotLogLen[i]], "\n") != strings.Join(a0log[:ref.logLen], "\n") {
				rc.Violate("atomicity/log/after-"+lastFault, "after piece %d [%s] the side-effect log has %d events, fault-free session %d: session tail %v", i, p.Fault, gotLogLen[i], ref.logLen, tail(alog[:gotLogLen[i]], 4))
				return
			}
		}
		if p.Fault != "" {
			lastFault = p.Fault
		}
	}
	if afinal.String() != a0final.String() {
		rc.Violate("atomicity/final-value/after-"+lastFault, "final expression gives %s in the session with fault pieces, %s in the fault-free session", afinal, a0final)
		return
	}
	if d := diffGlobals(a.globals(skip), a0globals); d != "" {
		rc.Violate("atomicity/globals-final/after-"+lastFault, "final globals (session vs fault-free): %s", d)
		return
	}
	if strings.Join(alog, "\n") != strings.Join(a0log, "\n") {
		rc.Violate("atomicity/log-final/after-"+lastFault, "final side-effect log differs: session %d events, fault-free %d", len(alog), len(a0log))
		return
	}
}

func tail(s []string, n int) []string {
	if len(s) > n {
		return s[len(s)-n:]
	}
	return s
}
