package checks

import (
	"context"
	"fmt"
	"sort"
	"strings"
	"sync"
	"sync/atomic"

	"github.com/risor-io/risor"
	"github.com/risor-io/risor/builtins"
	modTime "github.com/risor-io/risor/modules/time"
	"github.com/risor-io/risor/object"
	"github.com/risor-io/risor/verif/sim"
)

// Host is the set of harness builtins handed to scripts. Every call is stamped
// with a global event sequence number; because the scheduler runs one task at a
// time, the order of stamps is the real order of the calls.
type Host struct {
	mu   sync.Mutex
	seq  atomic.Int64
	Log  []HostEvent
	tick atomic.Int64
}

type HostEvent struct {
	Seq  int64
	Name string
	Args []int64
	Str  string
}

func (h *Host) stamp() int64 { return h.seq.Add(1) }

func (h *Host) record(name string, args []int64, str string) int64 {
	s := h.stamp()
	h.mu.Lock()
	h.Log = append(h.Log, HostEvent{Seq: s, Name: name, Args: args, Str: str})
	h.mu.Unlock()
	return s
}

// Reset forgets the events recorded so far (sequence numbers go on).
func (h *Host) Reset() {
	h.mu.Lock()
	h.Log = nil
	h.mu.Unlock()
}

func (h *Host) Events() []HostEvent {
	h.mu.Lock()
	defer h.mu.Unlock()
	out := make([]HostEvent, len(h.Log))
	copy(out, h.Log)
	return out
}

func (h *Host) Ticks() int64 { return h.tick.Load() }

func argInts(args []object.Object) ([]int64, string) {
	var ints []int64
	var strs []string
	for _, a := range args {
		switch v := a.(type) {
		case *object.Int:
			ints = append(ints, v.Value())
		case *object.NilType:
			ints = append(ints, -999999)
			strs = append(strs, "nil")
		default:
			strs = append(strs, safeInspect(a))
		}
	}
	return ints, strings.Join(strs, ",")
}

// Recorder returns a builtin that records (name, int args...) with a stamp.
func (h *Host) Recorder(name string) *object.Builtin {
	return object.NewBuiltin(name, func(ctx context.Context, args ...object.Object) object.Object {
		ints, str := argInts(args)
		h.record(name, ints, str)
		return object.Nil
	})
}

// RecorderRet records like Recorder and returns its idx-th argument, so that
// it can wrap a sub-expression and expose evaluation order.
func (h *Host) RecorderRet(name string, idx int) *object.Builtin {
	return object.NewBuiltin(name, func(ctx context.Context, args ...object.Object) object.Object {
		ints, str := argInts(args)
		h.record(name, ints, str)
		if idx < len(args) {
			return args[idx]
		}
		return object.Nil
	})
}

// LogStrings renders the host log (without stamps) for comparisons.
func (h *Host) LogStrings() []string {
	evs := h.Events()
	out := make([]string, len(evs))
	for i, e := range evs {
		out[i] = fmt.Sprintf("%s%v%s", e.Name, e.Args, e.Str)
	}
	return out
}

// Tick returns a builtin that counts calls (used to see whether script code is
// still executing).
func (h *Host) Tick() *object.Builtin {
	return object.NewBuiltin("tick", func(ctx context.Context, args ...object.Object) object.Object {
		h.tick.Add(1)
		return object.Nil
	})
}

// baseGlobals is a small, cheap global environment: the core builtins, the
// time module and whatever host builtins the scenario adds.
func baseGlobals(extra map[string]any) map[string]any {
	g := map[string]any{}
	for k, v := range builtins.Builtins() {
		g[k] = v
	}
	g["time"] = modTime.Module()
	for k, v := range extra {
		g[k] = v
	}
	return g
}

func baseOpts(extra map[string]any) []risor.Option {
	return []risor.Option{
		risor.WithoutDefaultGlobals(),
		risor.WithGlobals(baseGlobals(extra)),
		risor.WithConcurrency(),
	}
}

// EvalOutcome is what one API call returned, or the panic it let through.
type EvalOutcome struct {
	done   atomic.Bool // same as Done, readable from other goroutines in parallel windows
	Done   bool
	Result object.Object
	Err    error
	Panic  any
}

func (o *EvalOutcome) String() string {
	switch {
	case !o.Done:
		return "<not returned>"
	case o.Panic != nil:
		return fmt.Sprintf("PANIC(%v)", o.Panic)
	case o.Err != nil:
		return fmt.Sprintf("error(%v)", o.Err)
	case o.Result == nil:
		return "<nil object>"
	default:
		return safeInspect(o.Result)
	}
}

// IsDone is Done, safe to call from another goroutine.
func (o *EvalOutcome) IsDone() bool { return o.done.Load() }

// IsAbort reports whether the outcome is the teardown sentinel surfacing as an
// error (the run was ended by the harness, not by the program).
func (o *EvalOutcome) IsAbort() bool {
	return o.Err != nil && strings.Contains(o.Err.Error(), sim.AbortSentinel)
}

// guard runs fn and captures a panic that reaches the API boundary.
func guard(out *EvalOutcome, fn func() (object.Object, error)) {
	defer func() {
		if r := recover(); r != nil {
			out.Panic = r
		}
		out.Done = true
		out.done.Store(true)
	}()
	out.Result, out.Err = fn()
}

// evalTask starts a harness task that evaluates src with risor.Eval.
func evalTask(s *sim.Sim, name string, ctx context.Context, src string, opts []risor.Option) *EvalOutcome {
	out := &EvalOutcome{}
	s.Go("main", name, func() {
		guard(out, func() (object.Object, error) { return risor.Eval(ctx, src, opts...) })
	})
	return out
}

// aliveExcept lists the tasks that have not exited, leaving out the given kinds.
func aliveExcept(s *sim.Sim, kinds ...string) []*sim.Task {
	parked, blocked := s.Alive()
	var out []*sim.Task
	for _, t := range append(parked, blocked...) {
		skip := false
		for _, k := range kinds {
			if t.Kind == k {
				skip = true
			}
		}
		if !skip {
			out = append(out, t)
		}
	}
	return out
}

// sortedKeys returns the keys of a string-keyed map in sorted order: the
// harness never lets Go's map iteration order decide anything.
func sortedKeys[V any](m map[string]V) []string {
	ks := make([]string, 0, len(m))
	for k := range m {
		ks = append(ks, k)
	}
	sort.Strings(ks)
	return ks
}

func sortedIntKeys[V any](m map[int]V) []int {
	ks := make([]int, 0, len(m))
	for k := range m {
		ks = append(ks, k)
	}
	sort.Ints(ks)
	return ks
}

// faultSites are the hook sites at which a site-targeted fault may be aimed:
// the fault lands while a task is parked there, i.e. inside a blocking
// primitive, inside a (slow) OS call, or just before a task starts or fires.
var faultSites = []string{
	"start", "vm.clone", "vm.import", "vm.watcher.fire", "file.watcher.fire", "reg.lock",
	"chan.send", "chan.send.done", "chan.recv", "chan.recv.done", "chan.next", "chan.next.done", "chan.close",
	"thread.wait", "thread.wait.done", "time.sleep", "time.sleep.done",
	"simos.File.Close", "simos.File.Write", "simos.File.Read", "simos.Open", "simos.Create", "simos.WriteFile", "simos.ReadFile", "simos.Std.Write", "simos.Stdout", "simos.Remove", "simos.Rename",
}

// armSiteFault aims fn at a tape-chosen site and occurrence.
func armSiteFault(s *sim.Sim, f *sim.Stream, name string, fn func()) string {
	if f.Chance(2, 3) {
		// the k-th park at ANY site other than an instruction boundary: lands
		// on whatever primitives, OS calls, starts and fire points this
		// particular program actually reaches
		nth := 1 + f.Intn(12)
		s.AtSite("*", nth, name, fn)
		return fmt.Sprintf("*#%d", nth)
	}
	site := faultSites[f.Intn(len(faultSites))]
	nth := 1 + f.Intn(3)
	s.AtSite(site, nth, name, fn)
	return fmt.Sprintf("%s#%d", site, nth)
}

// IsRaceBuild reports whether this binary was built with the race detector.
func IsRaceBuild() bool { return raceBuild }
