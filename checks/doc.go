// Package checks holds one scenario per claimed property; each file registers
// its scenario with fw in an init function.
package checks
