package checks

import (
	"fmt"
	"strings"

	"github.com/risor-io/risor/verif/sim"
)

// ---------------------------------------------------------------------------
// G-core: terminating top-level programs over a small typed core. Types are
// tracked so that programs do not fail unless a failure is asked for. This is
// a payload generator for history- and fault-driven scenarios, not a grammar
// generator for the language.

type gType int

const (
	tInt gType = iota
	tBool
	tStr
	tList // list of int
	tMap  // map string -> int
)

type gVar struct {
	Name  string
	T     gType
	Const bool
}

type gFunc struct {
	Name   string
	Params int // all int
	NDef   int // trailing params with defaults
}

type coreGen struct {
	g      *sim.Stream
	vars   []*gVar
	funcs  []*gFunc
	n      int
	depth  int
	locals []*gVar // inside a function body or block: extra int variables in scope
	inFunc bool
	// MapHeavy biases towards maps/sets/duplicate keys (used by C05)
	MapHeavy bool
	marks    int
	noAppend bool // inside a range loop: appending to the ranged list would never end
}

// Stmt is one top-level statement with what it defines.
type Stmt struct {
	Src     string
	Defines []string
}

func newCoreGen(g *sim.Stream) *coreGen { return &coreGen{g: g} }

func (cg *coreGen) fresh(p string) string {
	cg.n++
	return fmt.Sprintf("%s%d", p, cg.n)
}

func (cg *coreGen) varsOf(t gType, assignable bool) []*gVar {
	var out []*gVar
	for _, v := range cg.vars {
		if v.T == t && (!assignable || !v.Const) {
			out = append(out, v)
		}
	}
	if t == tInt && !assignable {
		out = append(out, cg.locals...)
	}
	return out
}

func (cg *coreGen) intExpr(d int) string {
	g := cg.g
	vs := cg.varsOf(tInt, false)
	if d <= 0 {
		if len(vs) > 0 && g.Bool() {
			return vs[g.Intn(len(vs))].Name
		}
		return fmt.Sprint(g.Intn(20))
	}
	switch g.Intn(12) {
	case 0, 1:
		return fmt.Sprint(g.Intn(50))
	case 2, 3:
		if len(vs) > 0 {
			return vs[g.Intn(len(vs))].Name
		}
		return fmt.Sprint(g.Intn(9))
	case 4:
		return fmt.Sprintf("(%s + %s)", cg.intExpr(d-1), cg.intExpr(d-1))
	case 5:
		return fmt.Sprintf("(%s - %s)", cg.intExpr(d-1), cg.intExpr(d-1))
	case 6:
		return fmt.Sprintf("(%s * %s)", cg.intExpr(d-1), fmt.Sprint(g.Intn(5)))
	case 7:
		return fmt.Sprintf("(%s %% %d)", cg.intExpr(d-1), 2+g.Intn(7))
	case 8:
		ls := cg.varsOf(tList, false)
		if len(ls) > 0 {
			return fmt.Sprintf("len(%s)", ls[g.Intn(len(ls))].Name)
		}
		return fmt.Sprintf("len(%s)", cg.listExpr(d-1))
	case 9:
		if len(cg.funcs) > 0 && cg.depth < 2 {
			f := cg.funcs[g.Intn(len(cg.funcs))]
			n := f.Params - g.Intn(f.NDef+1)
			var args []string
			for i := 0; i < n; i++ {
				args = append(args, cg.intExpr(d-1))
			}
			return fmt.Sprintf("%s(%s)", f.Name, strings.Join(args, ", "))
		}
		return cg.intExpr(d - 1)
	case 10:
		// (the ternary `c ? (a - b) : f(x)` is mis-parsed by risor — a C01 matter,
		// not ours — so conditionals are generated as statements only)
		return fmt.Sprintf("(%s + %s)", cg.intExpr(d-1), cg.intExpr(d-1))
	default:
		return fmt.Sprintf("(-%s)", cg.intExpr(d-1))
	}
}

func (cg *coreGen) boolExpr(d int) string {
	g := cg.g
	if d <= 0 {
		return []string{"true", "false"}[g.Intn(2)]
	}
	switch g.Intn(7) {
	case 0:
		return fmt.Sprintf("(%s < %s)", cg.intExpr(d-1), cg.intExpr(d-1))
	case 1:
		return fmt.Sprintf("(%s == %s)", cg.intExpr(d-1), cg.intExpr(d-1))
	case 2:
		return fmt.Sprintf("(!%s)", cg.boolExpr(d-1))
	case 3:
		return fmt.Sprintf("(%s && %s)", cg.boolExpr(d-1), cg.boolExpr(d-1))
	case 4:
		return fmt.Sprintf("(%s || %s)", cg.boolExpr(d-1), cg.boolExpr(d-1))
	case 5:
		return fmt.Sprintf("(%s in %s)", cg.intExpr(d-1), cg.listExpr(d-1))
	default:
		vs := cg.varsOf(tBool, false)
		if len(vs) > 0 {
			return vs[g.Intn(len(vs))].Name
		}
		return fmt.Sprintf("(%s >= %s)", cg.intExpr(d-1), cg.intExpr(d-1))
	}
}

func (cg *coreGen) strExpr(d int) string {
	g := cg.g
	if d <= 0 {
		return fmt.Sprintf("%q", []string{"a", "bb", "", "xyz", "q"}[g.Intn(5)])
	}
	switch g.Intn(5) {
	case 0:
		return fmt.Sprintf("(%s + %s)", cg.strExpr(d-1), cg.strExpr(d-1))
	case 1:
		return fmt.Sprintf("string(%s)", cg.intExpr(d-1))
	case 2:
		vs := cg.varsOf(tStr, false)
		if len(vs) > 0 {
			return vs[g.Intn(len(vs))].Name
		}
		return `"s"`
	case 3:
		return fmt.Sprintf("'<{%s}|{%s}>'", cg.simpleIntOperand(), cg.templateContainer())
	default:
		return fmt.Sprintf("%q", []string{"k", "v", "w"}[g.Intn(3)])
	}
}

// templateContainer is a container expression without braces (risor's template
// strings do not nest braces): a container variable or a list of literals.
func (cg *coreGen) templateContainer() string {
	g := cg.g
	var vs []*gVar
	vs = append(vs, cg.varsOf(tList, false)...)
	vs = append(vs, cg.varsOf(tMap, false)...)
	if len(vs) > 0 && g.Bool() {
		return vs[g.Intn(len(vs))].Name
	}
	return fmt.Sprintf("[%d, %d]", g.Intn(20), g.Intn(20))
}

func (cg *coreGen) simpleIntOperand() string {
	vs := cg.varsOf(tInt, false)
	if len(vs) > 0 && cg.g.Bool() {
		return vs[cg.g.Intn(len(vs))].Name
	}
	return fmt.Sprint(cg.g.Intn(30))
}

func (cg *coreGen) anyContainer(d int) string {
	if cg.g.Bool() {
		return cg.listExpr(d)
	}
	return cg.mapExpr(d)
}

func (cg *coreGen) listExpr(d int) string {
	g := cg.g
	if d <= 0 {
		return fmt.Sprintf("[%d, %d]", g.Intn(9), g.Intn(9))
	}
	switch g.Intn(6) {
	case 0, 1:
		n := 1 + g.Intn(4)
		var el []string
		for i := 0; i < n; i++ {
			el = append(el, cg.intExpr(d-1))
		}
		return "[" + strings.Join(el, ", ") + "]"
	case 2:
		vs := cg.varsOf(tList, false)
		if len(vs) > 0 {
			return vs[g.Intn(len(vs))].Name
		}
		return "[1]"
	case 3:
		return fmt.Sprintf("(%s + %s)", cg.listExpr(d-1), cg.listExpr(d-1))
	case 4:
		return fmt.Sprintf("%s.map(func(x) { return x * %d })", cg.listExpr(d-1), 1+g.Intn(3))
	default:
		return fmt.Sprintf("sorted(%s)", cg.listExpr(d-1))
	}
}

var mapKeys = []string{"a", "b", "c", "d", "e", "f"}

func (cg *coreGen) mapExpr(d int) string {
	g := cg.g
	vs := cg.varsOf(tMap, false)
	if len(vs) > 0 && g.Chance(1, 3) {
		return vs[g.Intn(len(vs))].Name
	}
	n := 1 + g.Intn(4)
	var el []string
	first := g.Intn(len(mapKeys))
	for i := 0; i < n; i++ {
		// distinct keys unless duplicates are asked for (MapHeavy)
		k := mapKeys[(first+i)%len(mapKeys)]
		if cg.MapHeavy && g.Chance(1, 3) && i > 0 {
			// duplicate key with a side-effecting value: evaluation order and the
			// winner must not depend on hash iteration
			k = mapKeys[0]
		}
		v := cg.intExpr(d - 1)
		if cg.MapHeavy && g.Chance(1, 2) {
			cg.marks++
			v = fmt.Sprintf("emit(%d, %s)", cg.marks, v)
		}
		el = append(el, fmt.Sprintf("%q: %s", k, v))
	}
	if cg.MapHeavy && g.Chance(1, 3) {
		// wrapped over several lines with ragged indentation: the position of
		// a key on its line says nothing about its place in the literal
		var b strings.Builder
		b.WriteString("{")
		for i, e := range el {
			if i > 0 {
				b.WriteString(",")
				if g.Bool() {
					b.WriteString("\n" + strings.Repeat(" ", g.Intn(3)))
				} else {
					b.WriteString(" ")
				}
			} else if g.Chance(1, 3) {
				b.WriteString("\n" + strings.Repeat(" ", 2+g.Intn(12)))
			}
			b.WriteString(e)
		}
		b.WriteString("}")
		return b.String()
	}
	return "{" + strings.Join(el, ", ") + "}"
}

func (cg *coreGen) setExpr(d int) string {
	g := cg.g
	n := 1 + g.Intn(5)
	var el []string
	kind := 0
	if cg.MapHeavy {
		kind = g.Intn(7) // 0,1: ints  2: floats  3: strings  4: bytes  5: bools  6: mixed element types
	}
	for i := 0; i < n; i++ {
		k := kind
		if kind == 6 {
			k = g.Intn(6)
		}
		switch k {
		case 4:
			el = append(el, fmt.Sprintf("byte(%d)", g.Intn(9)))
		case 5:
			el = append(el, []string{"true", "false"}[g.Intn(2)])
		case 2:
			el = append(el, fmt.Sprintf("%d.%d", g.Intn(20), 1+g.Intn(8)))
		case 3:
			el = append(el, fmt.Sprintf("%q", []string{"a", "bb", "cc", "d", "eee", "ff", "g"}[g.Intn(7)]))
		default:
			el = append(el, cg.intExpr(d-1))
		}
	}
	return "{" + strings.Join(el, ", ") + "}"
}

// stringSet is a set literal of short strings with repeated lengths and first
// letters (ties for comparison functions that are not total orders).
func (cg *coreGen) stringSet() string {
	g := cg.g
	words := []string{"ab", "ba", "ca", "abc", "bcd", "a", "b", "cab", "bb", "aa"}
	n := 2 + g.Intn(5)
	var el []string
	for i := 0; i < n; i++ {
		el = append(el, fmt.Sprintf("%q", words[g.Intn(len(words))]))
	}
	return "{" + strings.Join(el, ", ") + "}"
}

func (cg *coreGen) exprOf(t gType, d int) string {
	switch t {
	case tInt:
		return cg.intExpr(d)
	case tBool:
		return cg.boolExpr(d)
	case tStr:
		return cg.strExpr(d)
	case tList:
		return cg.listExpr(d)
	default:
		return cg.mapExpr(d)
	}
}

// innerStmts generates statements for a nested block. They may assign existing
// top-level variables, call mark, and use locals; they define nothing global.
func (cg *coreGen) innerStmts(n int) string {
	var out []string
	for i := 0; i < n; i++ {
		out = append(out, cg.innerStmt())
	}
	return strings.Join(out, "; ")
}

func (cg *coreGen) innerStmt() string {
	g := cg.g
	switch g.Intn(7) {
	case 0, 1:
		cg.marks++
		return fmt.Sprintf("mark(%d, %s)", cg.marks, cg.intExpr(1))
	case 2, 3:
		vs := cg.varsOf(tInt, true)
		if len(vs) > 0 && !cg.inFunc {
			v := vs[g.Intn(len(vs))]
			if g.Bool() {
				return fmt.Sprintf("%s = %s", v.Name, cg.intExpr(2))
			}
			return fmt.Sprintf("%s += %s", v.Name, cg.intExpr(1))
		}
		cg.marks++
		return fmt.Sprintf("mark(%d, %s)", cg.marks, cg.intExpr(2))
	case 4:
		ls := cg.varsOf(tList, true)
		if len(ls) > 0 && !cg.inFunc && !cg.noAppend {
			return fmt.Sprintf("%s.append(%s)", ls[g.Intn(len(ls))].Name, cg.intExpr(1))
		}
		cg.marks++
		return fmt.Sprintf("mark(%d, len(%s))", cg.marks, cg.listExpr(1))
	case 5:
		ms := cg.varsOf(tMap, true)
		if len(ms) > 0 && !cg.inFunc {
			return fmt.Sprintf("%s[%q] = %s", ms[g.Intn(len(ms))].Name, mapKeys[g.Intn(len(mapKeys))], cg.intExpr(1))
		}
		cg.marks++
		return fmt.Sprintf("mark(%d, %s)", cg.marks, cg.intExpr(1))
	default:
		if cg.depth < 2 {
			cg.depth++
			defer func() { cg.depth-- }()
			return fmt.Sprintf("if %s { %s } else { %s }", cg.boolExpr(2), cg.innerStmts(1+g.Intn(2)), cg.innerStmts(1))
		}
		cg.marks++
		return fmt.Sprintf("mark(%d, 0)", cg.marks)
	}
}

// TopStmt generates one top-level statement.
func (cg *coreGen) TopStmt() Stmt {
	g := cg.g
	k := g.Intn(20)
	if cg.MapHeavy && g.Chance(1, 2) {
		k = 14 + g.Intn(6)
	}
	switch k {
	case 0, 1, 2:
		t := gType(g.Intn(5))
		name := cg.fresh("v")
		src := fmt.Sprintf("%s := %s", name, cg.exprOf(t, 2))
		cg.vars = append(cg.vars, &gVar{Name: name, T: t})
		return Stmt{Src: src, Defines: []string{name}}
	case 3:
		name := cg.fresh("k")
		src := fmt.Sprintf("const %s = %d", name, g.Intn(100))
		cg.vars = append(cg.vars, &gVar{Name: name, T: tInt, Const: true})
		return Stmt{Src: src, Defines: []string{name}}
	case 4, 5:
		for t := 0; t < 5; t++ {
			tt := gType((t + g.Intn(5)) % 5)
			vs := cg.varsOf(tt, true)
			if len(vs) > 0 {
				v := vs[g.Intn(len(vs))]
				return Stmt{Src: fmt.Sprintf("%s = %s", v.Name, cg.exprOf(tt, 2))}
			}
		}
		return cg.markStmt()
	case 6:
		vs := cg.varsOf(tInt, true)
		if len(vs) > 0 {
			v := vs[g.Intn(len(vs))]
			op := []string{"+=", "-=", "*="}[g.Intn(3)]
			return Stmt{Src: fmt.Sprintf("%s %s %s", v.Name, op, cg.intExpr(1))}
		}
		return cg.markStmt()
	case 7, 8:
		return cg.markStmt()
	case 9:
		cg.depth++
		defer func() { cg.depth-- }()
		return Stmt{Src: fmt.Sprintf("if %s { %s } else { %s }", cg.boolExpr(2), cg.innerStmts(1+g.Intn(3)), cg.innerStmts(1+g.Intn(2)))}
	case 10:
		cg.depth++
		defer func() { cg.depth-- }()
		i := cg.fresh("i")
		cg.locals = append(cg.locals, &gVar{Name: i, T: tInt})
		defer func() { cg.locals = cg.locals[:len(cg.locals)-1] }()
		body := cg.innerStmts(1 + g.Intn(2))
		if g.Chance(1, 4) {
			body = fmt.Sprintf("if %s == 1 { continue }; %s", i, body)
		}
		if g.Chance(1, 5) {
			body = fmt.Sprintf("%s; if %s == 2 { break }", body, i)
		}
		return Stmt{Src: fmt.Sprintf("for %s := 0; %s < %d; %s++ { %s }", i, i, 1+g.Intn(4), i, body)}
	case 11:
		cg.depth++
		defer func() { cg.depth-- }()
		x := cg.fresh("x")
		ranged := cg.listExpr(1)
		cg.locals = append(cg.locals, &gVar{Name: x, T: tInt})
		defer func() { cg.locals = cg.locals[:len(cg.locals)-1] }()
		cg.noAppend = true
		defer func() { cg.noAppend = false }()
		return Stmt{Src: fmt.Sprintf("for _, %s := range %s { %s }", x, ranged, cg.innerStmts(1+g.Intn(2)))}
	case 12:
		// function definition (int params, trailing defaults, optional defer)
		name := cg.fresh("f")
		np := g.Intn(3)
		nd := 0
		if np > 0 {
			nd = g.Intn(np + 1)
		}
		var params []string
		saved := cg.locals
		cg.locals = nil
		for i := 0; i < np; i++ {
			p := fmt.Sprintf("p%d", i)
			cg.locals = append(cg.locals, &gVar{Name: p, T: tInt})
			if i >= np-nd {
				params = append(params, fmt.Sprintf("%s=%d", p, g.Intn(9)))
			} else {
				params = append(params, p)
			}
		}
		cg.depth += 2
		cg.inFunc = true
		body := cg.innerStmts(g.Intn(3))
		if g.Chance(1, 4) {
			cg.marks++
			d := fmt.Sprintf("defer func() { mark(%d, 0) }()", cg.marks)
			if body == "" {
				body = d
			} else {
				body = d + "; " + body
			}
		}
		ret := cg.intExpr(2)
		cg.inFunc = false
		cg.depth -= 2
		cg.locals = saved
		if body != "" {
			body += "; "
		}
		src := fmt.Sprintf("func %s(%s) { %sreturn %s }", name, strings.Join(params, ", "), body, ret)
		cg.funcs = append(cg.funcs, &gFunc{Name: name, Params: np, NDef: nd})
		return Stmt{Src: src, Defines: []string{name}}
	case 13:
		cg.depth++
		defer func() { cg.depth-- }()
		var cases []string
		for i := 0; i < 1+g.Intn(3); i++ {
			cases = append(cases, fmt.Sprintf("case %d: %s", i, cg.innerStmts(1)))
		}
		return Stmt{Src: fmt.Sprintf("switch %s %% 4 { %s\n default: %s }", cg.intExpr(2), strings.Join(cases, "\n "), cg.innerStmts(1))}
	case 14:
		if vs := cg.varsOf(tInt, true); len(vs) > 0 && g.Bool() {
			// a function whose NESTED functions read and write a global
			v := vs[g.Intn(len(vs))]
			name := cg.fresh("f")
			k := g.Intn(9)
			var src string
			switch g.Intn(3) {
			case 0:
				src = fmt.Sprintf("func %s() { inner := func() { return %s + %d }; return inner() }", name, v.Name, k)
			case 1:
				src = fmt.Sprintf("func %s() { w := func() { %s = %s + 1 }; w(); rd := func() { return %s }; return rd() }", name, v.Name, v.Name, v.Name)
			default:
				src = fmt.Sprintf("func %s() { func deep() { return func() { return %s * 2 } }; return deep()() + %d }", name, v.Name, k)
			}
			cg.funcs = append(cg.funcs, &gFunc{Name: name})
			cg.marks++
			src += fmt.Sprintf("\nmark(%d, %s())", cg.marks, name)
			return Stmt{Src: src, Defines: []string{name}}
		}
		// closure counter
		mk := cg.fresh("mk")
		c := cg.fresh("cl")
		src := fmt.Sprintf("func %s() { c := %d; return func() { c++; return c } }\n%s := %s()\n%s()", mk, g.Intn(5), c, mk, c)
		cg.marks++
		src += fmt.Sprintf("\nmark(%d, %s())", cg.marks, c)
		return Stmt{Src: src, Defines: []string{mk, c}}
	case 15:
		cg.marks++
		return Stmt{Src: fmt.Sprintf("mark(%d, try(func() { error(\"e%d\") }, func(e) { return %s }))", cg.marks, g.Intn(9), cg.intExpr(1))}
	case 16:
		name := cg.fresh("v")
		src := fmt.Sprintf("%s := %s", name, cg.mapExpr(2))
		cg.vars = append(cg.vars, &gVar{Name: name, T: tMap})
		return Stmt{Src: src, Defines: []string{name}}
	case 17:
		// iterate a map / its keys; observable order
		cg.marks++
		m := cg.mapExpr(1)
		if g.Bool() {
			// (a map literal cannot stand directly in range position)
			tm := cg.fresh("tm")
			return Stmt{Src: fmt.Sprintf("%s := %s\nfor k, v := range %s { emit(%d, v); emits(k) }", tm, m, tm, cg.marks), Defines: []string{tm}}
		}
		return Stmt{Src: fmt.Sprintf("for _, k := range keys(%s) { emits(k) }", m)}
	case 18:
		cg.marks++
		return Stmt{Src: fmt.Sprintf("emits(string(%s)); emits('{%s}')", cg.setExpr(1), cg.templateContainer())}
	default:
		cg.marks++
		if cg.MapHeavy {
			switch g.Intn(6) {
			case 0:
				return Stmt{Src: fmt.Sprintf("emits(string(sorted(%s, func(a, b) { return len(a) < len(b) })))", cg.stringSet())}
			case 1:
				return Stmt{Src: fmt.Sprintf("emits(string(sorted(%s, func(a, b) { return a[0] < b[0] })))", cg.stringSet())}
			case 2:
				return Stmt{Src: fmt.Sprintf("emits(string(sorted(%s, func(a, b) { return len(a) < len(b) })))", cg.mapExpr(1))}
			case 3:
				return Stmt{Src: fmt.Sprintf("emits(string(try(func() { return sorted({%d, \"s\", %d.5, [1]}) }, func(e) { return string(e) })))", g.Intn(9), g.Intn(9))}
			case 4:
				return Stmt{Src: fmt.Sprintf("emits(string(list(%s)))", cg.setExpr(1))}
			}
		}
		return Stmt{Src: fmt.Sprintf("for x in %s { emits(string(x)) }", cg.setExpr(1))}
	}
}

func (cg *coreGen) markStmt() Stmt {
	cg.marks++
	g := cg.g
	if g.Chance(1, 6) {
		// literals from a small shared pool (strings and floats are constants
		// of the code object; rejected pieces draw from the same pool)
		return Stmt{Src: fmt.Sprintf("mark(%d, len(%s) + int(%s))", cg.marks, poolString(g), poolFloat(g))}
	}
	if g.Chance(1, 3) {
		// attribute (method) uses: each name is a slot in the code's name table
		switch g.Intn(7) {
		case 0:
			return Stmt{Src: fmt.Sprintf("mark(%d, len(%s.copy()))", cg.marks, cg.listExpr(1))}
		case 1:
			return Stmt{Src: fmt.Sprintf("mark(%d, len(%s.keys()))", cg.marks, cg.mapExpr(1))}
		case 2:
			if ls := cg.varsOf(tList, true); len(ls) > 0 {
				return Stmt{Src: fmt.Sprintf("%s.reverse()\nmark(%d, len(%s))", ls[g.Intn(len(ls))].Name, cg.marks, ls[0].Name)}
			}
		case 3:
			return Stmt{Src: fmt.Sprintf("mark(%d, len(%s.to_upper()))", cg.marks, cg.strExpr(1))}
		case 4:
			return Stmt{Src: fmt.Sprintf("mark(%d, len(%s.filter(func(x) { return x > 2 })))", cg.marks, cg.listExpr(1))}
		case 5:
			return Stmt{Src: fmt.Sprintf("mark(%d, len(%s.values()))", cg.marks, cg.mapExpr(1))}
		default:
			return Stmt{Src: fmt.Sprintf("mark(%d, %s.count(%d))", cg.marks, cg.listExpr(1), g.Intn(9))}
		}
	}
	return Stmt{Src: fmt.Sprintf("mark(%d, %s)", cg.marks, cg.intExpr(2))}
}

// FinalExpr is an expression statement summarising the state, used as the
// value of a program or piece.
func (cg *coreGen) FinalExpr() string {
	var parts []string
	for _, v := range cg.vars {
		parts = append(parts, v.Name)
		if len(parts) >= 6 {
			break
		}
	}
	parts = append(parts, cg.intExpr(2))
	return "[" + strings.Join(parts, ", ") + "]"
}

// Program generates n top-level statements.
func (cg *coreGen) Program(n int) []Stmt {
	var out []Stmt
	for i := 0; i < n; i++ {
		out = append(out, cg.TopStmt())
	}
	return out
}

var litStrings = []string{"lit-a", "lit-bb", "lit-ccc", "ghost", "second", "third-one", "z9"}
var litFloats = []string{"2.5", "1.5", "0.25", "7.75", "3.125"}

func poolString(g *sim.Stream) string { return fmt.Sprintf("%q", litStrings[g.Intn(len(litStrings))]) }
func poolFloat(g *sim.Stream) string  { return litFloats[g.Intn(len(litFloats))] }
