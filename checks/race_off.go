//go:build !race

package checks

// raceBuild reports whether the worker was built with the race detector.
const raceBuild = false
