// Command verif is the driver: it rebuilds the worker test binary from /repo's
// current working tree (with -tags verif), fans run indices out to worker
// processes, merges their aggregates into the evidence file, filters known
// findings, prints VIOLATION / KNOWN-FINDING lines and sets the exit status
// (0 held, 1 violation, 2 infrastructure).
package main

import (
	"bufio"
	"encoding/json"
	"flag"
	"fmt"
	"os"
	"os/exec"
	"path/filepath"
	"regexp"
	"runtime"
	"sort"
	"strconv"
	"strings"
	"sync"
	"time"
)

const goBin = "go1.26.8"

var verifDir string

// overlayInfo is mapseam's report (rewritten sites) for the evidence file.
var overlayInfo string

type checkSpec struct {
	Property string
	Level    string
	Runs     map[string]int
	Wall     map[string]int // seconds of worker wall time (batch)
	Race     bool
	Overlay  bool
	Procs    int
	Tags     string
	// MustCount: a counter prefix that has to be non-zero, else the run is an
	// infrastructure failure (e.g. the overlay seam was not compiled in).
	MustCount string
	// TotalFromWorker: the scenario enumerates a finite product; the thorough
	// tier runs every index of it (the worker reports the size).
	TotalFromWorker bool
	// AlsoRace: after the ordinary batch, run a second batch with a worker
	// built with -race (phase R).
	AlsoRace bool
	// RaceProcs / RaceGMP: worker processes at a time and GOMAXPROCS of each in
	// the race phase. Fewer, wider processes give the tasks of one run real
	// simultaneity (needed for logic races inside a few instructions, which no
	// happens-before analysis sees); more, narrower ones give more runs.
	RaceProcs int
	RaceGMP   int
	RaceRuns  map[string]int
	// DeathIsViolation: a worker process that dies (fatal error, unrecovered
	// panic in a risor goroutine, exit through a bypassed OS) is a violation
	// candidate, confirmed by repeating the in-flight run alone.
	DeathIsViolation bool
	// GMP: GOMAXPROCS of each worker process (default 2)
	GMP int
}

// Budgets live here (driver side) so that tiers can be tuned without touching
// the scenarios.
var specs = map[string]*checkSpec{
	"C03": {Property: "C03", Level: "exploration", DeathIsViolation: true, AlsoRace: true, Runs: map[string]int{"quick": 40000, "thorough": 400000}, RaceRuns: map[string]int{"quick": 3000, "thorough": 100000}, Wall: map[string]int{"quick": 70, "thorough": 1800}},
	"C09": {Property: "C09", Level: "exploration", AlsoRace: true, Runs: map[string]int{"quick": 8000, "thorough": 300000}, RaceRuns: map[string]int{"quick": 3000, "thorough": 100000}, Wall: map[string]int{"quick": 70, "thorough": 1800}},
	"C14": {Property: "C14", Level: "exploration", Runs: map[string]int{"quick": 40000, "thorough": 400000}, Wall: map[string]int{"quick": 50, "thorough": 1500}},
	"C12": {Property: "C12", Level: "fault_enumeration", Runs: map[string]int{"quick": 0, "thorough": 0}, Wall: map[string]int{"quick": 50, "thorough": 1500}, TotalFromWorker: true},
	"C05": {Property: "C05", Level: "exploration", Overlay: true, Runs: map[string]int{"quick": 20000, "thorough": 300000}, Wall: map[string]int{"quick": 45, "thorough": 1500}, MustCount: "probe_site_"},
	"C18": {Property: "C18", Level: "exploration", Runs: map[string]int{"quick": 60000, "thorough": 600000}, Wall: map[string]int{"quick": 50, "thorough": 1500}},
	"C06": {Property: "C06", Level: "exploration", GMP: 4, Runs: map[string]int{"quick": 60000, "thorough": 1000000}, Wall: map[string]int{"quick": 50, "thorough": 1500}},
	"C07": {Property: "C07", Level: "exploration", Runs: map[string]int{"quick": 50000, "thorough": 600000}, Wall: map[string]int{"quick": 50, "thorough": 1500}},
	"C10": {Property: "C10", Level: "exploration", AlsoRace: true, RaceProcs: 8, RaceGMP: 4, Runs: map[string]int{"quick": 30000, "thorough": 400000}, RaceRuns: map[string]int{"quick": 2500, "thorough": 60000}, Wall: map[string]int{"quick": 70, "thorough": 1800}},
}

type agg struct {
	Property     string           `json:"property"`
	Runs         int              `json:"runs"`
	Steps        int64            `json:"steps"`
	SimTimeNs    int64            `json:"sim_time_ns"`
	Counters     map[string]int   `json:"counters"`
	Strategies   map[string]int   `json:"strategies"`
	Digests      []uint64         `json:"digests"`
	Pairs        []string         `json:"pairs"`
	Inconclusive map[string]int   `json:"inconclusive"`
	Samples      []map[string]any `json:"samples"`
	Violations   []foundViolation `json:"violations"`
	WallS        float64          `json:"wall_s"`
	StoppedEarly bool             `json:"stopped_early"`
}

type foundViolation struct {
	Property string `json:"property"`
	Class    string `json:"class"`
	Message  string `json:"message"`
	Seed     uint64 `json:"seed"`
	Index    int    `json:"index"`
	Replay   string `json:"replay"`
}

type knownFinding struct {
	Property  string `json:"property"`
	Signature string `json:"signature"` // prefix match on violation class
	What      string `json:"what"`
	Status    string `json:"status"` // "known" or "fixed"
	Commit    string `json:"commit,omitempty"`
}

type meta struct {
	Total       int      `json:"total"`
	Property    string   `json:"property"`
	Name        string   `json:"name"`
	Level       string   `json:"level"`
	Rule        string   `json:"rule"`
	Real        []string `json:"real"`
	Stub        []string `json:"stub"`
	Assumptions []string `json:"assumptions"`
}

func infra(format string, a ...any) {
	fmt.Printf("INFRA: "+format+"\n", a...)
	os.Exit(2)
}

func goEnv() []string {
	env := os.Environ()
	set := map[string]string{
		"GOFLAGS": "-mod=mod", "GOPROXY": "off", "GOSUMDB": "off", "GOTOOLCHAIN": "local", "GOWORK": "off",
	}
	var out []string
	for _, e := range env {
		k := e[:strings.IndexByte(e, '=')]
		if _, ok := set[k]; !ok {
			out = append(out, e)
		}
	}
	for k, v := range set {
		out = append(out, k+"="+v)
	}
	return out
}

// sweepBuildDir removes what earlier invocations left behind in .build: crash
// logs, output directories, private modfiles and worker binaries of driver
// processes that no longer exist.
func sweepBuildDir(id string) {
	buildDir := filepath.Join(verifDir, ".build")
	alive := func(pid string) bool {
		if pid == strconv.Itoa(os.Getpid()) {
			return true
		}
		_, err := os.Stat("/proc/" + pid)
		return err == nil
	}
	ents, _ := os.ReadDir(buildDir)
	pidOf := regexp.MustCompile(`^(?:out-C\d+-|crash-C\d+-|worker-|overlay-worker-|go-|overlay-)(\d+)`)
	for _, e := range ents {
		n := e.Name()
		m := pidOf.FindStringSubmatch(n)
		if m == nil {
			continue
		}
		if !alive(m[1]) {
			if strings.HasPrefix(n, "crash-") {
				// logs of dead workers are kept for a while for inspection
				if fi, err := e.Info(); err == nil && time.Since(fi.ModTime()) < 3*time.Hour {
					continue
				}
			}
			os.RemoveAll(filepath.Join(buildDir, n))
		}
	}
}

func repoDir() string {
	if r := os.Getenv("VERIF_REPO"); r != "" {
		return r
	}
	return "/repo"
}

// buildWorker compiles the worker test binary from the current tree.
func buildWorker(spec *checkSpec, race bool) string {
	buildDir := filepath.Join(verifDir, ".build")
	os.MkdirAll(buildDir, 0o755)
	name := "worker.test"
	if race {
		name = "worker-race.test"
	}
	repo := repoDir()
	modfile := ""
	if repo != "/repo" {
		// point the replace directive at the scratch copy through a private modfile
		src, err := os.ReadFile(filepath.Join(verifDir, "go.mod"))
		if err != nil {
			infra("read go.mod: %v", err)
		}
		tag := strconv.FormatInt(int64(os.Getpid()), 10)
		modfile = filepath.Join(buildDir, "go-"+tag+".mod")
		alt := strings.Replace(string(src), "=> /repo", "=> "+repo, 1)
		if err := os.WriteFile(modfile, []byte(alt), 0o644); err != nil {
			infra("write modfile: %v", err)
		}
		sum, _ := os.ReadFile(filepath.Join(verifDir, "go.sum"))
		os.WriteFile(filepath.Join(buildDir, "go-"+tag+".sum"), sum, 0o644)
		name = "worker-" + tag + "-" + name
		defer os.Remove(modfile)
		defer os.Remove(filepath.Join(buildDir, "go-"+tag+".sum"))
	}
	overlay := ""
	if spec != nil && spec.Overlay {
		// regenerate the map-order seam from the current tree
		tool := filepath.Join(verifDir, "bin", "mapseam")
		if _, err := os.Stat(tool); err != nil {
			c := exec.Command(goBin, "build", "-o", tool, "./tools/mapseam")
			c.Dir = verifDir
			c.Env = goEnv()
			if b, err := c.CombinedOutput(); err != nil {
				infra("build of mapseam failed:\n%s", b)
			}
		}
		odir := filepath.Join(buildDir, "overlay-"+strconv.Itoa(os.Getpid()))
		c := exec.Command(tool, "-repo", repo, "-out", odir)
		c.Dir = verifDir
		b, err := c.CombinedOutput()
		if err != nil {
			infra("mapseam failed (cannot build the map-order seam from this tree):\n%s", b)
		}
		overlay = filepath.Join(odir, "overlay.json")
		overlayInfo = string(b)
		name = "overlay-" + name
		defer os.RemoveAll(odir)
	}
	out := filepath.Join(buildDir, name)
	tags := "verif"
	if spec != nil && spec.Tags != "" {
		tags += "," + spec.Tags
	}
	args := []string{"test", "-c", "-tags", tags, "-o", out}
	if race {
		args = append(args, "-race")
	}
	if modfile != "" {
		args = append(args, "-modfile", modfile)
	}
	if overlay != "" {
		args = append(args, "-overlay", overlay)
	}
	args = append(args, "./worker")
	cmd := exec.Command(goBin, args...)
	cmd.Dir = verifDir
	cmd.Env = goEnv()
	b, err := cmd.CombinedOutput()
	if err != nil {
		infra("build of worker failed (this is a build problem, not a verdict):\n%s", string(b))
	}
	return out
}

func loadKnown() []knownFinding {
	b, err := os.ReadFile(filepath.Join(verifDir, "known_findings.json"))
	if err != nil {
		return nil
	}
	var f struct {
		Findings []knownFinding `json:"findings"`
	}
	if err := json.Unmarshal(b, &f); err != nil {
		infra("known_findings.json does not parse: %v", err)
	}
	return f.Findings
}

func main() {
	if len(os.Args) < 2 {
		fmt.Println("usage: verif check <ID> [--tier quick|thorough] | verif replay <file> | verif build")
		os.Exit(2)
	}
	exe, _ := os.Executable()
	verifDir = os.Getenv("VERIF_DIR")
	if verifDir == "" {
		verifDir = filepath.Dir(filepath.Dir(exe))
		if _, err := os.Stat(filepath.Join(verifDir, "go.mod")); err != nil {
			verifDir, _ = os.Getwd()
		}
	}
	switch os.Args[1] {
	case "check":
		cmdCheck(os.Args[2:])
	case "replay":
		cmdReplay(os.Args[2:])
	case "selftest":
		cmdSelftest(os.Args[2:])
	case "build":
		buildWorker(nil, false)
		fmt.Println("worker built")
	default:
		fmt.Println("unknown command", os.Args[1])
		os.Exit(2)
	}
}

func cmdReplay(args []string) {
	fs := flag.NewFlagSet("replay", flag.ExitOnError)
	times := fs.Int("times", 1, "repetitions")
	// accept flags before or after the file
	var file string
	var rest []string
	for i := 0; i < len(args); i++ {
		if !strings.HasPrefix(args[i], "-") && file == "" {
			file = args[i]
		} else {
			rest = append(rest, args[i])
		}
	}
	fs.Parse(rest)
	if file == "" {
		infra("replay needs a file")
	}
	path, _ := filepath.Abs(file)
	b, err := os.ReadFile(path)
	if err != nil {
		infra("cannot read %s: %v", path, err)
	}
	var rf struct {
		Property  string `json:"property"`
		Violation struct {
			Class string `json:"class"`
		} `json:"violation"`
		RaceBuild bool `json:"race_build"`
	}
	if err := json.Unmarshal(b, &rf); err != nil {
		infra("bad replay file: %v", err)
	}
	spec := specs[rf.Property]
	bin := buildWorker(spec, rf.RaceBuild || (spec != nil && spec.Race))
	cmd := exec.Command(bin, "-test.run", "TestWorker", "-test.timeout", "30m")
	cmd.Dir = verifDir
	cmd.Env = append(os.Environ(), "VERIF_CHECK="+rf.Property, "VERIF_REPLAY="+path, "VERIF_REPLAY_TIMES="+strconv.Itoa(*times))
	out, _ := cmd.CombinedOutput()
	fmt.Print(string(out))
	reproduced := false
	sawResult := false
	for _, line := range strings.Split(string(out), "\n") {
		if strings.HasPrefix(line, "REPLAY-RESULT") {
			sawResult = true
			if !strings.Contains(line, "reproduced=0/") {
				reproduced = true
			}
		}
	}
	if strings.HasPrefix(rf.Violation.Class, "process-death") && !sawResult && deathReason(string(out)) != "" {
		// the violation IS the death of the process: it died again
		fmt.Printf("replay: the worker process died again: %s\n", deathReason(string(out)))
		reproduced = true
	}
	if strings.HasPrefix(rf.Violation.Class, "process-death") && strings.Contains(string(b), "silent exit") && !sawResult && !strings.Contains(string(out), "worker done") && !strings.Contains(string(out), "harness:") {
		fmt.Printf("replay: the worker process ended without a report again\n")
		reproduced = true
	}
	if reproduced {
		fmt.Printf("VIOLATION property=%s replay=%s\n", rf.Property, path)
		os.Exit(1)
	}
	os.Exit(0)
}

func cmdCheck(args []string) {
	if len(args) < 1 {
		infra("check needs a property id")
	}
	id := strings.ToUpper(args[0])
	fs := flag.NewFlagSet("check", flag.ExitOnError)
	tier := fs.String("tier", os.Getenv("VERIF_TIER"), "quick|thorough")
	seedFlag := fs.String("seed", os.Getenv("VERIF_SEED"), "base seed")
	procs := fs.Int("procs", 0, "worker processes")
	runsFlag := fs.Int("runs", 0, "override number of runs")
	wallFlag := fs.Int("wall", 0, "override wall budget (s)")
	fs.Parse(args[1:])
	if *tier == "" {
		*tier = "quick"
	}
	if *tier != "quick" && *tier != "thorough" {
		infra("unknown tier %q", *tier)
	}
	var seed uint64 = 20260925
	if *seedFlag != "" {
		v, err := strconv.ParseInt(*seedFlag, 10, 64)
		if err != nil {
			u, err2 := strconv.ParseUint(*seedFlag, 10, 64)
			if err2 != nil {
				infra("bad seed %q", *seedFlag)
			}
			seed = u
		} else {
			seed = uint64(v)
		}
	}
	spec := specs[id]
	if spec == nil {
		infra("no check registered for %s", id)
	}
	start := time.Now()
	bin := buildWorker(spec, spec.Race)
	buildS := time.Since(start).Seconds()

	// scenario metadata from the worker itself
	md := describe(bin, id, *tier)

	nproc := *procs
	if nproc == 0 {
		nproc = spec.Procs
	}
	if nproc == 0 {
		nproc = runtime.NumCPU()
	}
	runs := spec.Runs[*tier]
	exhaustive := false
	if spec.TotalFromWorker && md.Total > 0 && (runs == 0 || runs >= md.Total) {
		runs = md.Total
		exhaustive = true
	}
	if *runsFlag > 0 {
		runs = *runsFlag
	}
	wall := spec.Wall[*tier]
	if *wallFlag > 0 {
		wall = *wallFlag
	}
	tag := fmt.Sprintf("%s-%d", id, os.Getpid())
	sweepBuildDir(id)
	outDir := filepath.Join(verifDir, ".build", "out-"+tag)
	os.MkdirAll(outDir, 0o755)
	defer os.RemoveAll(outDir)
	replayDir := filepath.Join(verifDir, "replays")
	os.MkdirAll(replayDir, 0o755)

	type wres struct {
		agg       *agg
		lastBeg   string
		exitErr   error
		output    string
		aggOK     bool
		racePhase bool
		bin       string // the worker binary of the phase this result belongs to
	}
	type phase struct {
		race  bool
		bin   string
		runs  int
		wall  int
		gmp   int
		chunk int
		procs int // worker processes at a time (0 = all)
	}
	// Serial phases run on one P: the baton lets one task run at a time anyway,
	// and at teardown (when every parked task of a run is released at once to
	// unwind) one P keeps those tasks from running truly in parallel, which
	// would be an uncontrolled and unrecorded schedule. Phases with parallel
	// windows ask for more (spec.GMP, RaceGMP).
	gmp := 1
	if spec.GMP > 0 {
		gmp = spec.GMP
	}
	phases := []phase{{race: spec.Race, bin: bin, runs: runs, wall: wall, gmp: gmp}}
	if spec.AlsoRace {
		// phase R: the same scenario in a binary built with the race detector
		rbin := buildWorker(spec, true)
		rruns := spec.RaceRuns[*tier]
		if *runsFlag > 0 {
			rruns = *runsFlag
		}
		phases[0].wall = wall / 2
		rgmp := 4
		if spec.RaceGMP > 0 {
			rgmp = spec.RaceGMP
		}
		phases = append(phases, phase{race: true, bin: rbin, runs: rruns, wall: wall - wall/2, gmp: rgmp, chunk: 12, procs: spec.RaceProcs})
	}
	var results []wres
	for pi, ph := range phases {
		bin := ph.bin
		runs := ph.runs
		deadline := time.Now().Add(time.Duration(ph.wall) * time.Second)
		var phaseResults []wres
		var resMu sync.Mutex
		var wg sync.WaitGroup
		// In chunked mode (race phase) every worker process handles only a
		// small range of run indices and is then replaced by a fresh process,
		// so that first-use-in-process paths run again and again.
		type job struct{ from, to, stride, slot, seq int }
		jobs := make(chan job, 1024)
		go func() {
			if ph.chunk <= 0 {
				for w := 0; w < nproc; w++ {
					jobs <- job{w, runs, nproc, w, 0}
				}
			} else {
				seq := 0
				for from := 0; from < runs; from += ph.chunk {
					to := from + ph.chunk
					if to > runs {
						to = runs
					}
					jobs <- job{from, to, 1, seq % nproc, seq}
					seq++
				}
			}
			close(jobs)
		}()
		slots := nproc
		if ph.procs > 0 && ph.procs < nproc {
			slots = ph.procs
		}
		for slot := 0; slot < slots; slot++ {
			wg.Add(1)
			go func(slot int) {
				defer wg.Done()
				for jb := range jobs {
					if time.Now().After(deadline) {
						continue
					}
					func(w int) {
						out := filepath.Join(outDir, fmt.Sprintf("agg-%d-%d.json", pi, w))
						logPath := filepath.Join(outDir, fmt.Sprintf("log-%d-%d.txt", pi, w))
						logf, _ := os.Create(logPath)
						// (-test.cpu, not only the environment: the testing package sets
						// GOMAXPROCS itself, and the parallel windows need real parallelism)
						cmd := exec.Command(bin, "-test.run", "TestWorker", "-test.timeout", "12h", "-test.cpu", strconv.Itoa(ph.gmp))
						cmd.Dir = verifDir
						env := append(os.Environ(),
							"VERIF_CHECK="+id, "VERIF_TIER="+*tier, "VERIF_SEED="+strconv.FormatUint(seed, 10),
							"VERIF_FROM="+strconv.Itoa(jb.from), "VERIF_TO="+strconv.Itoa(jb.to), "VERIF_STRIDE="+strconv.Itoa(jb.stride),
							"VERIF_DEADLINE="+strconv.FormatInt(deadline.Unix(), 10),
							"VERIF_OUT="+out, "VERIF_REPLAY_DIR="+replayDir, "VERIF_WORKER="+strconv.Itoa(w),
							"GOMAXPROCS="+strconv.Itoa(ph.gmp),
						)
						if ph.race {
							// reports are appended to <log_path>.<pid>; the worker reads them after every run
							env = append(env, "GORACE=log_path="+filepath.Join(outDir, fmt.Sprintf("race-%d-%d", pi, w))+" history_size=2")
						}
						var sigs []string
						for _, k := range loadKnown() {
							if k.Status == "known" && k.Property == id {
								sigs = append(sigs, k.Signature)
							}
						}
						env = append(env, "VERIF_KNOWN="+strings.Join(sigs, "\x1f"))
						cmd.Env = env
						cmd.Stdout = logf
						cmd.Stderr = logf
						err := cmd.Run()
						logf.Close()
						r := wres{exitErr: err}
						if b, e := os.ReadFile(out); e == nil {
							a := &agg{}
							if json.Unmarshal(b, a) == nil {
								r.agg = a
								r.aggOK = true
							}
						}
						// last begin line and tail of the log
						if f, e := os.Open(logPath); e == nil {
							sc := bufio.NewScanner(f)
							sc.Buffer(make([]byte, 1<<20), 1<<20)
							var tail []string
							for sc.Scan() {
								line := sc.Text()
								if strings.HasPrefix(line, "begin ") {
									r.lastBeg = line
									tail = tail[:0] // keep what follows the last begin line
								} else if len(tail) < 400 {
									tail = append(tail, line)
								}
							}
							f.Close()
							r.output = strings.Join(tail, "\n")
						}
						if ph.race && !r.aggOK {
							r.racePhase = true
						}
						r.bin = bin
						resMu.Lock()
						phaseResults = append(phaseResults, r)
						resMu.Unlock()
					}(jb.seq*1000 + jb.slot)
				}
			}(slot)
		}
		wg.Wait()
		results = append(results, phaseResults...)
	}

	total := &agg{Property: id, Counters: map[string]int{}, Strategies: map[string]int{}, Inconclusive: map[string]int{}}
	digests := map[uint64]struct{}{}
	pairs := map[string]struct{}{}
	var crashed []string
	for w, r := range results {
		if !r.aggOK {
			// The worker died: a crash of the process under test (fatal error,
			// unrecovered panic in a risor goroutine, os.Exit through a bypassed
			// OS) or an infrastructure failure. Keep the log for inspection.
			keep := filepath.Join(verifDir, ".build", fmt.Sprintf("crash-%s-w%d.log", tag, w))
			os.WriteFile(keep, []byte(r.lastBeg+"\n"+r.output), 0o644)
			crashed = append(crashed, fmt.Sprintf("worker %d died (%v) during %q; log %s", w, r.exitErr, r.lastBeg, keep))
			continue
		}
		a := r.agg
		total.Runs += a.Runs
		total.Steps += a.Steps
		total.SimTimeNs = satAdd(total.SimTimeNs, a.SimTimeNs)
		for k, v := range a.Counters {
			total.Counters[k] += v
		}
		for k, v := range a.Strategies {
			total.Strategies[k] += v
		}
		for k, v := range a.Inconclusive {
			total.Inconclusive[k] += v
		}
		for _, d := range a.Digests {
			digests[d] = struct{}{}
		}
		for _, p := range a.Pairs {
			pairs[p] = struct{}{}
		}
		if len(total.Samples) < 3 {
			total.Samples = append(total.Samples, a.Samples...)
		}
		total.Violations = append(total.Violations, a.Violations...)
		if a.StoppedEarly {
			total.StoppedEarly = true
		}
	}
	wallS := time.Since(start).Seconds()

	if len(crashed) > 0 {
		handled := false
		if true { // a dead or hung worker is a violation candidate for every check
			// A dead worker is a crash of the process under test. Confirm each
			// one by running the in-flight run index alone in a fresh process.
			handled = true
			confirmed := 0
			for _, r := range results {
				if r.aggOK {
					continue
				}
				if confirmed >= 3 {
					continue // enough confirmed deaths to report; do not spend more time
				}
				var idx int
				var rseed uint64
				if n, _ := fmt.Sscanf(r.lastBeg, "begin index=%d seed=%d", &idx, &rseed); n != 2 {
					handled = false
					break
				}
				reason := deathReason(r.output)
				if r.racePhase && strings.HasPrefix(reason, "fatal error: concurrent map") && risorFrameFirst(r.output) {
					// The runtime itself detected concurrent access to a map in risor
					// code inside a parallel window. Parallel windows do not replay
					// exactly (DESIGN 2.6), so this is not re-confirmed by repetition:
					// the runtime's detection is unambiguous.
					rp := filepath.Join(replayDir, fmt.Sprintf("%s-%d-%d.json", id, seed, idx))
					rf := map[string]any{"property": id, "scenario": md.Name, "tier": *tier, "base_seed": seed, "index": idx, "run_seed": rseed, "regenerate": true, "race_build": r.racePhase,
						"violation": map[string]any{"property": id, "class": "process-death", "message": reason},
						"rendering": map[string]any{"death": reason, "log_head": firstLines(r.output, 40), "note": "phase R (race build): the Go runtime aborted the process on concurrent map access in risor code"}}
					b, _ := json.MarshalIndent(rf, "", " ")
					os.WriteFile(rp, b, 0o644)
					total.Violations = append(total.Violations, foundViolation{Property: id, Class: "race/" + firstLine(reason), Message: "phase R: the worker process died: " + reason + "\n" + firstLines(r.output, 25), Seed: rseed, Index: idx, Replay: rp})
					confirmed++
					continue
				}
				if strings.Contains(reason, "harness:") {
					handled = false
					break
				}
				if reason == "" {
					// no panic, no fatal error, no watchdog: the process simply ended
					// (an exit request that reached the real operating system does that)
					reason = fmt.Sprintf("the process ended without a report (%v)", r.exitErr)
				}
				out := filepath.Join(outDir, fmt.Sprintf("confirm-%d.json", idx))
				cbin := bin
				if r.bin != "" {
					cbin = r.bin
				}
				cmd := exec.Command(cbin, "-test.run", "TestWorker", "-test.timeout", "30m")
				cmd.Dir = verifDir
				cmd.Env = append(os.Environ(), "VERIF_CHECK="+id, "VERIF_TIER="+*tier, "VERIF_SEED="+strconv.FormatUint(seed, 10),
					"VERIF_FROM="+strconv.Itoa(idx), "VERIF_TO="+strconv.Itoa(idx+1), "VERIF_STRIDE=1", "VERIF_OUT="+out, "VERIF_REPLAY_DIR="+replayDir, "VERIF_RUN_LIMIT_S=45")
				cout, _ := cmd.CombinedOutput()
				if _, err := os.Stat(out); err == nil {
					fmt.Printf("INFRA: worker death during index %d did not reproduce when the run was repeated alone (%s)\n", idx, reason)
					handled = false
					break
				}
				reason2 := deathReason(string(cout))
				silent := false
				if reason2 == "" {
					if strings.Contains(string(cout), "harness:") {
						fmt.Printf("INFRA: repeating index %d alone failed inside the harness\n", idx)
						handled = false
						break
					}
					silent = true
					reason2 = "silent exit: the process ended without a report, again when the run was repeated alone (an exit request reached the real operating system)"
				}
				rp := filepath.Join(replayDir, fmt.Sprintf("%s-%d-%d.json", id, seed, idx))
				rf := map[string]any{"property": id, "scenario": md.Name, "tier": *tier, "base_seed": seed, "index": idx, "run_seed": rseed, "regenerate": true, "race_build": r.racePhase,
					"violation": map[string]any{"property": id, "class": "process-death", "message": reason2},
					"rendering": map[string]any{"first_death": reason, "confirmed_death": reason2, "note": "the worker process died while executing this run; replay regenerates the tape from run_seed and counts a repeated death as reproduction"}}
				b, _ := json.MarshalIndent(rf, "", " ")
				os.WriteFile(rp, b, 0o644)
				confirmed++
				cls := "process-death/" + firstLine(reason2)
				if strings.HasPrefix(reason2, "hang:") {
					cls = "hang/run-did-not-return"
				}
				if silent {
					cls = "process-death/silent-exit"
				}
				total.Violations = append(total.Violations, foundViolation{Property: id, Class: cls, Message: "the worker process died: " + reason2, Seed: rseed, Index: idx, Replay: rp})
			}
		}
		if h := crashHandlers[id]; h != nil && !handled {
			handled = h(crashed, results2logs(outDir))
		}
		if !handled {
			for _, c := range crashed {
				fmt.Println("INFRA:", c)
			}
			if len(total.Violations) == 0 {
				infra("%d worker(s) died without writing an aggregate", len(crashed))
			}
			// violations found by the other workers are still reported below
		}
	}
	if total.Runs == 0 && len(total.Violations) == 0 {
		infra("no runs were executed")
	}
	if total.Runs == 0 {
		total.Runs = len(total.Violations) // runs that killed their worker
	}
	if spec.MustCount != "" {
		n := 0
		for k, v := range total.Counters {
			if strings.HasPrefix(k, spec.MustCount) {
				n += v
			}
		}
		if n == 0 {
			infra("no counter with prefix %q fired: the seam this check depends on is not compiled in", spec.MustCount)
		}
	}

	// known findings
	known := loadKnown()
	sort.Slice(total.Violations, func(i, j int) bool { return total.Violations[i].Index < total.Violations[j].Index })
	seenClass := map[string]bool{}
	var fresh []foundViolation
	knownHit := map[string]foundViolation{}
	for _, v := range total.Violations {
		matched := false
		for _, k := range known {
			if k.Status == "known" && k.Property == id && strings.HasPrefix(v.Class, k.Signature) {
				matched = true
				if _, ok := knownHit[k.Signature]; !ok {
					knownHit[k.Signature] = v
					fmt.Printf("KNOWN-FINDING: property=%s %s [class=%s example replay=%s]\n", id, k.What, v.Class, v.Replay)
				}
				break
			}
		}
		if matched {
			continue
		}
		if seenClass[v.Class] {
			continue
		}
		seenClass[v.Class] = true
		fresh = append(fresh, v)
	}

	exhaustiveDone = exhaustive && !total.StoppedEarly && total.Runs >= md.Total
	productSize = md.Total
	writeEvidence(id, *tier, seed, spec, md, total, len(digests), len(pairs), wallS, buildS, len(fresh), len(knownHit), nproc)

	fmt.Printf("%s tier=%s seed=%d runs=%d steps=%d distinct_nontrivial=%d wall=%.1fs (build %.1fs) violations=%d known=%d\n",
		id, *tier, seed, total.Runs, total.Steps, len(digests), wallS, buildS, len(fresh), len(knownHit))
	if len(fresh) > 0 {
		for _, v := range fresh {
			fmt.Printf("  class=%s index=%d seed=%d: %s\n", v.Class, v.Index, v.Seed, v.Message)
			fmt.Printf("VIOLATION property=%s replay=%s\n", id, v.Replay)
		}
		os.Exit(1)
	}
	// Runs whose workload precondition failed (a generated program that must run
	// cleanly without faults did not) decide nothing: with no violation found
	// elsewhere that is trouble with the tree or the harness, not a pass.
	pre := 0
	for k, v := range total.Inconclusive {
		if strings.HasPrefix(k, "precondition_") {
			pre += v
		}
	}
	if pre > 0 {
		infra("%d run(s) could not be judged: the fault-free reference execution of a generated workload failed on this tree (see evidence: inconclusive)", pre)
	}
	os.Exit(0)
}

// deathReason extracts the fatal error / panic line of a dead worker's log.
func deathReason(log string) string {
	for _, l := range strings.Split(log, "\n") {
		if strings.HasPrefix(l, "WATCHDOG:") {
			return "hang: a run did not return (a task is stuck where the simulator cannot see it, e.g. on a mutex)"
		}
		if strings.HasPrefix(l, "fatal error:") || strings.HasPrefix(l, "panic:") || strings.Contains(l, "signal SIGSEGV") {
			return strings.TrimSpace(l)
		}
	}
	return ""
}

func firstLines(s string, n int) string {
	l := strings.Split(s, "\n")
	if len(l) > n {
		l = l[:n]
	}
	return strings.Join(l, "\n")
}

// risorFrameFirst reports whether the first goroutine of a crash dump is
// executing risor code (not harness code) below the runtime frames.
func risorFrameFirst(log string) bool {
	seenGoroutine := false
	for _, l := range strings.Split(log, "\n") {
		if strings.HasPrefix(l, "goroutine ") {
			if seenGoroutine {
				return false
			}
			seenGoroutine = true
			continue
		}
		if !seenGoroutine || strings.HasPrefix(l, "\t") || strings.TrimSpace(l) == "" {
			continue
		}
		if strings.HasPrefix(l, "runtime.") || strings.HasPrefix(l, "internal/") || strings.HasPrefix(l, "sync.") {
			continue
		}
		return strings.HasPrefix(l, "github.com/risor-io/risor/") && !strings.HasPrefix(l, "github.com/risor-io/risor/verif/")
	}
	return false
}

func firstLine(s string) string {
	if i := strings.IndexAny(s, "\n["); i > 0 {
		s = s[:i]
	}
	if len(s) > 80 {
		s = s[:80]
	}
	return strings.TrimSpace(s)
}

var exhaustiveDone bool
var productSize int

// cmdSelftest: determinism. Every scenario's first N run indices are executed in
// several separate processes at GOMAXPROCS 1, 4 and 16 (twice at 4); the lines
// "run index=.. steps=.. strategy=.. digest=.. violation=.." must be identical.
func cmdSelftest(args []string) {
	fs := flag.NewFlagSet("selftest", flag.ExitOnError)
	n := fs.Int("runs", 60, "run indices per scenario")
	only := fs.String("only", "", "comma-separated property ids")
	fs.Parse(args)
	ids := []string{}
	for id := range specs {
		if *only == "" || strings.Contains(","+*only+",", ","+id+",") {
			ids = append(ids, id)
		}
	}
	sort.Strings(ids)
	bad := 0
	for _, id := range ids {
		spec := specs[id]
		bin := buildWorker(spec, false)
		var outs []string
		for _, gmp := range []string{"1", "4", "4", "16"} {
			for _, seed := range []string{"7"} {
				cmd := exec.Command(bin, "-test.run", "TestWorker", "-test.timeout", "30m")
				cmd.Dir = verifDir
				cmd.Env = append(os.Environ(), "VERIF_CHECK="+id, "VERIF_TIER=quick", "VERIF_SEED="+seed, "VERIF_FROM=0", "VERIF_TO="+strconv.Itoa(*n),
					"VERIF_VERBOSE=1", "GOMAXPROCS="+gmp, "VERIF_MAX_VIOLATIONS=1000000", "VERIF_MIN_ATTEMPTS=0")
				b, _ := cmd.CombinedOutput()
				var lines []string
				for _, l := range strings.Split(string(b), "\n") {
					if strings.HasPrefix(l, "run index=") {
						// step counts after a cancellation may differ (runtime's
						// choice among ready select cases); everything else must not
						f := strings.Fields(l)
						var keep []string
						for _, w := range f {
							if !strings.HasPrefix(w, "steps=") {
								keep = append(keep, w)
							}
						}
						lines = append(lines, strings.Join(keep, " "))
					}
				}
				outs = append(outs, strings.Join(lines, "\n"))
			}
		}
		same := true
		for _, o := range outs[1:] {
			if o != outs[0] {
				same = false
			}
		}
		nl := strings.Count(outs[0], "\n") + 1
		if same && outs[0] != "" {
			fmt.Printf("selftest determinism %s: OK (%d runs x %d processes, GOMAXPROCS 1/4/4/16 identical)\n", id, nl, len(outs))
		} else {
			bad++
			fmt.Printf("selftest determinism %s: MISMATCH\n", id)
			a, b := strings.Split(outs[0], "\n"), []string{}
			for _, o := range outs[1:] {
				if o != outs[0] {
					b = strings.Split(o, "\n")
					break
				}
			}
			for i := range a {
				if i >= len(b) || a[i] != b[i] {
					fmt.Printf("  first difference at line %d:\n   %s\n   %s\n", i, a[i], func() string {
						if i < len(b) {
							return b[i]
						}
						return "<missing>"
					}())
					break
				}
			}
		}
	}
	if bad > 0 {
		os.Exit(1)
	}
}

var crashHandlers = map[string]func(crashed []string, logs []string) bool{}

func results2logs(dir string) []string {
	m, _ := filepath.Glob(filepath.Join(dir, "log-*.txt"))
	return m
}

func describe(bin, id, tier string) *meta {
	cmd := exec.Command(bin, "-test.run", "TestDescribe")
	cmd.Dir = verifDir
	cmd.Env = append(os.Environ(), "VERIF_CHECK="+id, "VERIF_TIER="+tier)
	out, err := cmd.CombinedOutput()
	if err != nil {
		infra("describe failed: %v\n%s", err, out)
	}
	for _, line := range strings.Split(string(out), "\n") {
		if strings.HasPrefix(line, "META ") {
			m := &meta{}
			if err := json.Unmarshal([]byte(line[5:]), m); err != nil {
				infra("bad META line: %v", err)
			}
			return m
		}
	}
	infra("worker did not describe %s:\n%s", id, out)
	return nil
}

func toolVersions() map[string]string {
	v := map[string]string{}
	if b, err := exec.Command(goBin, "version").Output(); err == nil {
		v["go"] = strings.TrimSpace(string(b))
	}
	v["porcupine"] = "v1.3.0"
	return v
}

func writeEvidence(id, tier string, seed uint64, spec *checkSpec, md *meta, t *agg, distinct, pairs int, wallS, buildS float64, violations, known, nproc int) {
	runsPerHour := 0.0
	if wallS > 0 {
		runsPerHour = float64(t.Runs) / wallS * 3600
	}
	faults := map[string]int{}
	probes := map[string]int{}
	other := map[string]int{}
	for k, v := range t.Counters {
		switch {
		case strings.HasPrefix(k, "fault_"):
			faults[strings.TrimPrefix(k, "fault_")] = v
		case strings.HasPrefix(k, "probe_"):
			probes[strings.TrimPrefix(k, "probe_")] = v
		default:
			other[k] = v
		}
	}
	cov := map[string]any{
		"evaluations":            t.Runs,
		"distinct_nontrivial":    distinct,
		"rule":                   md.Rule,
		"samples":                t.Samples,
		"runs_per_hour":          int64(runsPerHour),
		"seeds_per_hour":         int64(runsPerHour),
		"scheduler_steps":        t.Steps,
		"simulated_time_s":       float64(t.SimTimeNs) / 1e9, // saturates at about 9.2e9 s (292 years)
		"faults_fired":           faults,
		"probes":                 probes,
		"counters":               other,
		"strategies":             t.Strategies,
		"preemption_pairs":       pairs,
		"inconclusive":           t.Inconclusive,
		"real":                   md.Real,
		"stub":                   md.Stub,
		"worker_processes":       nproc,
		"stopped_at_wall_budget": t.StoppedEarly,
		"build_s":                buildS,
		"known_findings_hit":     known,
		"tools":                  toolVersions(),
		"scenario":               md.Name,
	}
	if productSize > 0 {
		cov["product_size"] = productSize
		cov["exhaustive"] = exhaustiveDone
	}
	if overlayInfo != "" {
		var sites []string
		for _, l := range strings.Split(overlayInfo, "\n") {
			if strings.HasPrefix(l, "site ") {
				sites = append(sites, strings.TrimPrefix(l, "site "))
			}
		}
		cov["overlay_range_sites"] = sites
	}
	if len(t.Samples) == 0 {
		cov["samples"] = []any{map[string]any{"note": "no sample recorded"}}
	}
	ev := map[string]any{
		"property_id": id,
		"tier":        tier,
		"seed":        int64(seed & 0x7fffffffffffffff),
		"level":       md.Level,
		"coverage":    cov,
		"assumptions": md.Assumptions,
		"wall_s":      wallS,
		"violations":  violations,
	}
	b, err := json.MarshalIndent(ev, "", " ")
	if err != nil {
		infra("evidence marshal: %v", err)
	}
	evDir := filepath.Join(verifDir, "evidence")
	if repoDir() != "/repo" {
		// a run against a scratch copy (sensitivity testing) is not evidence
		evDir = filepath.Join(verifDir, ".build", "evidence-scratch")
	}
	os.MkdirAll(evDir, 0o755)
	if err := os.WriteFile(filepath.Join(evDir, id+".json"), b, 0o644); err != nil {
		infra("evidence write: %v", err)
	}
}

func satAdd(a, b int64) int64 {
	if b < 0 {
		b = 0
	}
	if a > (1<<63-1)-b {
		return 1<<63 - 1
	}
	return a + b
}
