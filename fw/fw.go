// Package fw is the glue between scenarios (one per claimed property), the
// simulator, the worker process and the driver: run contexts, result
// aggregation, replay files and the tape minimiser.
package fw

import (
	"encoding/json"
	"fmt"
	"os"
	"sort"
	"strings"
	"sync"
	"testing"
	"testing/synctest"
	"time"

	"github.com/risor-io/risor/verif/sim"
)

type Violation struct {
	Property string `json:"property"`
	// Class is the violation signature: oracle clause plus locus. Known
	// findings are matched on it, and the minimiser keeps a candidate only if
	// the same class recurs.
	Class   string `json:"class"`
	Message string `json:"message"`
}

// RunCtx is what a scenario sees for one run.
type RunCtx struct {
	T         *testing.T
	Property  string
	Tier      string
	Seed      uint64
	Index     int
	Tape      *sim.Tape
	Replaying bool
	Knobs     map[string]int

	Counters     map[string]int
	Violation    *Violation
	Sample       map[string]any
	NonTrivial   bool
	Digest       uint64
	Steps        int
	SimTime      time.Duration
	Strategy     string
	Inconclusive string
	Pairs        map[string]struct{}
	Leaked       int
	FullTrace    string

	mu sync.Mutex
}

// Count and Hit may be called from host builtins that run in parallel windows.
func (rc *RunCtx) Count(name string, n int) {
	if n != 0 {
		rc.mu.Lock()
		rc.Counters[name] += n
		rc.mu.Unlock()
	}
}

func (rc *RunCtx) Hit(name string) {
	rc.mu.Lock()
	rc.Counters[name]++
	rc.mu.Unlock()
}

// Violate records the first violation of the run.
func (rc *RunCtx) Violate(class, format string, args ...any) {
	if rc.Violation == nil {
		rc.Violation = &Violation{Property: rc.Property, Class: class, Message: fmt.Sprintf(format, args...)}
	}
}

// AbsorbSim copies the simulator's measurements into the run context.
func (rc *RunCtx) AbsorbSim(s *sim.Sim, strategy string) {
	rc.Digest ^= s.Digest()
	if os.Getenv("VERIF_DUMP_TRACE") != "" {
		rc.FullTrace = s.RenderTrace(1 << 30)
	}
	rc.Steps += s.Step
	rc.SimTime = time.Duration(SatAdd(int64(rc.SimTime), int64(s.Now())))
	rc.Strategy = strategy
	if s.Preempts > 0 {
		rc.NonTrivial = true
	}
	rc.Count("preemptions", s.Preempts)
	rc.Count("clock_jumps", s.ClockJumps)
	for p := range s.PairSet {
		rc.Pairs[p] = struct{}{}
	}
}

type Scenario struct {
	Property string
	Name     string
	// Runs per tier: number of simulated runs when the wall budget allows.
	Runs map[string]int
	// WallBudget per tier for the whole batch (all workers), seconds.
	Wall map[string]int
	Run  func(rc *RunCtx)
	// Rule describes how cases are generated and what non-trivial/distinct mean.
	Rule        string
	Real, Stub  []string
	Assumptions []string
	Level       string
	// Exhaustive scenarios enumerate index 0..Total-1 instead of sampling.
	Total func(tier string) int
}

var registry = map[string]*Scenario{}

func Register(sc *Scenario) { registry[strings.ToUpper(sc.Property)] = sc }

func Lookup(id string) *Scenario { return registry[strings.ToUpper(id)] }

func All() []*Scenario {
	var ids []string
	for id := range registry {
		ids = append(ids, id)
	}
	sort.Strings(ids)
	var out []*Scenario
	for _, id := range ids {
		out = append(out, registry[id])
	}
	return out
}

func RunSeed(base uint64, index int) uint64 {
	return sim.SplitMix64(base ^ sim.SplitMix64(uint64(index)+0x5151))
}

// Execute performs one run of the scenario on the given tape inside a fresh
// synctest bubble.
func Execute(t *testing.T, sc *Scenario, tier string, seed uint64, index int, tape *sim.Tape, replaying bool) *RunCtx {
	rc := &RunCtx{
		T: t, Property: sc.Property, Tier: tier, Seed: seed, Index: index, Tape: tape,
		Replaying: replaying,
		Counters:  map[string]int{}, Pairs: map[string]struct{}{}, Knobs: map[string]int{},
	}
	// The bubble is entered from a goroutine of its own: when the race detector
	// fires during a run, the testing package fails the bubble's T and
	// synctest.Test calls FailNow (runtime.Goexit) on its caller, which must not
	// be the worker loop.
	done := make(chan struct{})
	go func() {
		defer close(done)
		defer func() {
			if r := recover(); r != nil {
				msg := fmt.Sprint(r)
				if strings.Contains(msg, "deadlock: main bubble goroutine has exited") {
					rc.Hit("bubble_end_blocked_goroutines")
					return
				}
				// A panic escaping the scenario's root goroutine is a harness
				// defect, not a verdict: fail loudly.
				panic(r)
			}
		}()
		synctest.Test(t, func(t *testing.T) {
			rc.T = t
			sc.Run(rc)
		})
	}()
	<-done
	return rc
}

// ---------------------------------------------------------------------------
// Aggregation (one per worker, merged by the driver)

type FoundViolation struct {
	Violation
	Seed   uint64 `json:"seed"`
	Index  int    `json:"index"`
	Replay string `json:"replay"`
}

type Agg struct {
	Property     string           `json:"property"`
	Runs         int              `json:"runs"`
	Steps        int64            `json:"steps"`
	SimTimeNs    int64            `json:"sim_time_ns"`
	Counters     map[string]int   `json:"counters"`
	Strategies   map[string]int   `json:"strategies"`
	Digests      []uint64         `json:"digests"`
	Pairs        []string         `json:"pairs"`
	Inconclusive map[string]int   `json:"inconclusive"`
	Samples      []map[string]any `json:"samples"`
	Violations   []FoundViolation `json:"violations"`
	WallS        float64          `json:"wall_s"`
	StoppedEarly bool             `json:"stopped_early"`
	FirstIndex   int              `json:"first_index"`
	LastIndex    int              `json:"last_index"`

	digestSet map[uint64]struct{}
	pairSet   map[string]struct{}
}

func NewAgg(property string) *Agg {
	return &Agg{Property: property, Counters: map[string]int{}, Strategies: map[string]int{},
		Inconclusive: map[string]int{}, digestSet: map[uint64]struct{}{}, pairSet: map[string]struct{}{}}
}

func (a *Agg) Add(rc *RunCtx, maxSamples int) {
	a.Runs++
	a.Steps += int64(rc.Steps)
	a.SimTimeNs = SatAdd(a.SimTimeNs, int64(rc.SimTime))
	for k, v := range rc.Counters {
		a.Counters[k] += v
	}
	if rc.Strategy != "" {
		a.Strategies[rc.Strategy]++
	}
	if rc.NonTrivial {
		a.digestSet[rc.Digest] = struct{}{}
	}
	for p := range rc.Pairs {
		a.pairSet[p] = struct{}{}
	}
	if rc.Inconclusive != "" {
		a.Inconclusive[rc.Inconclusive]++
	}
	if rc.Sample != nil && len(a.Samples) < maxSamples {
		rc.Sample["seed"] = rc.Seed
		rc.Sample["index"] = rc.Index
		a.Samples = append(a.Samples, rc.Sample)
	}
}

func (a *Agg) Finish() {
	a.Digests = a.Digests[:0]
	for d := range a.digestSet {
		a.Digests = append(a.Digests, d)
	}
	sort.Slice(a.Digests, func(i, j int) bool { return a.Digests[i] < a.Digests[j] })
	a.Pairs = a.Pairs[:0]
	for p := range a.pairSet {
		a.Pairs = append(a.Pairs, p)
	}
	sort.Strings(a.Pairs)
}

func (a *Agg) Write(path string) error {
	a.Finish()
	b, err := json.Marshal(a)
	if err != nil {
		return err
	}
	return os.WriteFile(path, b, 0o644)
}

// ---------------------------------------------------------------------------
// Replay files

type ReplayFile struct {
	Property  string           `json:"property"`
	Scenario  string           `json:"scenario"`
	Tier      string           `json:"tier"`
	BaseSeed  uint64           `json:"base_seed"`
	Index     int              `json:"index"`
	RunSeed   uint64           `json:"run_seed"`
	Violation Violation        `json:"violation"`
	Digest    uint64           `json:"trace_digest"`
	Streams   map[string][]int `json:"streams"`
	Original  map[string][]int `json:"original_streams,omitempty"`
	Rendering map[string]any   `json:"rendering,omitempty"`
	Minimised bool             `json:"minimised"`
	// Regenerate: the streams are not recorded (the process died before they
	// could be); the tape is regenerated from RunSeed, which determines it.
	Regenerate bool `json:"regenerate,omitempty"`
	// RaceBuild: the violation was found by a worker built with the race
	// detector (parallel-window phases); replay uses the same kind of build.
	RaceBuild  bool `json:"race_build,omitempty"`
	Attempts   int  `json:"minimise_attempts"`
	DrawsTotal int  `json:"draws_total"`
}

func WriteReplay(path string, rf *ReplayFile) error {
	b, err := json.MarshalIndent(rf, "", " ")
	if err != nil {
		return err
	}
	return os.WriteFile(path, b, 0o644)
}

func ReadReplay(path string) (*ReplayFile, error) {
	b, err := os.ReadFile(path)
	if err != nil {
		return nil, err
	}
	rf := &ReplayFile{}
	if err := json.Unmarshal(b, rf); err != nil {
		return nil, err
	}
	return rf, nil
}

// SatAdd adds two non-negative durations in nanoseconds and saturates at the
// largest value (programs that sleep for simulated hours in a loop cover
// centuries of simulated time over a batch; a wrapped sum would be a lie).
func SatAdd(a, b int64) int64 {
	if b < 0 {
		b = 0
	}
	if a > (1<<63-1)-b {
		return 1<<63 - 1
	}
	return a + b
}
