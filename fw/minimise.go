package fw

import (
	"sort"
	"time"
)

// Minimise shrinks recorded tape streams while the same violation class
// persists. try executes a candidate and returns the violation class it
// produced ("" if none). The result is the smallest candidate found within the
// attempt and time budget.
//
// Passes, ordered by payoff:
//  1. per stream, truncate to the shortest prefix that still fails (draws past
//     the end read as 0 = simplest choice: no fault, keep running the same
//     task, smallest size);
//  2. zero out blocks (halving block size);
//  3. delete blocks (drops statements/messages/tasks in generator streams);
//  4. lower single values (0, half, minus one).
func Minimise(orig map[string][]int, class string, try func(map[string][]int) string, maxAttempts int, budget time.Duration) (best map[string][]int, attempts int) {
	deadline := time.Now().Add(budget)
	best = cloneStreams(orig)
	names := make([]string, 0, len(best))
	for n := range best {
		names = append(names, n)
	}
	// faults first, then schedule, then everything else
	rank := func(n string) int {
		switch n {
		case "fault":
			return 0
		case "sched":
			return 1
		}
		return 2
	}
	sort.Slice(names, func(i, j int) bool {
		if rank(names[i]) != rank(names[j]) {
			return rank(names[i]) < rank(names[j])
		}
		return names[i] < names[j]
	})
	ok := func(c map[string][]int) bool {
		if attempts >= maxAttempts || time.Now().After(deadline) {
			return false
		}
		attempts++
		return try(c) == class
	}
	exhausted := func() bool { return attempts >= maxAttempts || time.Now().After(deadline) }

	for pass := 0; pass < 3 && !exhausted(); pass++ {
		changed := false
		// 1. truncation (binary search on prefix length)
		for _, n := range names {
			lo, hi := 0, len(best[n]) // smallest k in [lo,hi] that fails; hi fails
			for lo < hi && !exhausted() {
				mid := (lo + hi) / 2
				c := cloneStreams(best)
				c[n] = c[n][:mid]
				if ok(c) {
					hi = mid
					best = c
					changed = true
				} else {
					lo = mid + 1
				}
			}
		}
		// 2. zero blocks
		for _, n := range names {
			for size := len(best[n]) / 2; size >= 1 && !exhausted(); size /= 2 {
				for start := 0; start+size <= len(best[n]) && !exhausted(); start += size {
					allZero := true
					for _, v := range best[n][start : start+size] {
						if v != 0 {
							allZero = false
							break
						}
					}
					if allZero {
						continue
					}
					c := cloneStreams(best)
					for i := start; i < start+size; i++ {
						c[n][i] = 0
					}
					if ok(c) {
						best = c
						changed = true
					}
				}
			}
		}
		// 3. delete blocks
		for _, n := range names {
			for size := len(best[n]) / 2; size >= 1 && !exhausted(); size /= 2 {
				for start := 0; start+size <= len(best[n]) && !exhausted(); {
					c := cloneStreams(best)
					c[n] = append(append([]int{}, c[n][:start]...), c[n][start+size:]...)
					if ok(c) {
						best = c
						changed = true
					} else {
						start += size
					}
				}
			}
		}
		// 4. lower values
		for _, n := range names {
			for i := 0; i < len(best[n]) && !exhausted(); i++ {
				v := best[n][i]
				if v == 0 {
					continue
				}
				for _, nv := range []int{0, v / 2, v - 1} {
					if nv >= v || nv < 0 {
						continue
					}
					c := cloneStreams(best)
					c[n][i] = nv
					if ok(c) {
						best = c
						changed = true
						break
					}
				}
			}
		}
		if !changed {
			break
		}
	}
	return best, attempts
}

func cloneStreams(m map[string][]int) map[string][]int {
	out := make(map[string][]int, len(m))
	for k, v := range m {
		out[k] = append([]int(nil), v...)
	}
	return out
}

func TotalDraws(m map[string][]int) int {
	n := 0
	for _, v := range m {
		n += len(v)
	}
	return n
}
