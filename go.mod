module github.com/risor-io/risor/verif

go 1.26.8

require (
	github.com/anishathalye/porcupine v1.3.0
	github.com/risor-io/risor v0.0.0
)

require (
	golang.org/x/mod v0.41.0 // indirect
	golang.org/x/sync v0.23.0 // indirect
	golang.org/x/tools v0.50.0
)

replace github.com/risor-io/risor => /repo
