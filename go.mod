module github.com/risor-io/risor/verif

go 1.26.8

require (
	github.com/anishathalye/porcupine v1.3.0
	github.com/risor-io/risor v0.0.0
)

replace github.com/risor-io/risor => /repo
