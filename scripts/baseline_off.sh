#!/bin/bash
# Runs the repository's own test suite with the verif build tag OFF (the
# shipped configuration). Mirrors the pinned baseline command: same module
# list, same flags.
cd /repo || exit 2
MODS=". ./cmd/risor ./cmd/risor-api ./cmd/risor-docs ./cmd/risor-lsp ./cmd/risor-modgen ./modules/aws ./modules/bcrypt ./modules/cli ./modules/color ./modules/echarts ./modules/gha ./modules/github ./modules/goquery ./modules/htmltomarkdown ./modules/image ./modules/isatty ./modules/jmespath ./modules/kubernetes ./modules/pgx ./modules/playwright ./modules/qrcode ./modules/redis ./modules/sched ./modules/semver ./modules/shlex ./modules/slack ./modules/sql ./modules/ssh ./modules/tablewriter"
rc=0
for m in $MODS; do
  MF=""
  gw=$(cd /repo/$m && go env GOWORK 2>/dev/null)
  if [ -z "$gw" ] || [ "$gw" = off ]; then MF="-mod=mod"; fi
  (cd /repo/$m && go test $MF -json -vet=off -count=1 -timeout 25m ./...) || rc=1
done
exit $rc
