#!/usr/bin/env python3
"""Re-run every seeded change under /verif/seeded against the check of its
property (and any extra checks named in meta.json "also_checks") and record the
outcome in meta.json under "detection". usage: rerun_seeded.py [id-prefix ...]"""
import json, os, subprocess, sys, concurrent.futures, time
root = "/verif/seeded"
sel = sys.argv[1:]
ids = sorted(d for d in os.listdir(root) if os.path.isdir(os.path.join(root, d)) and (not sel or any(d.startswith(s) for s in sel)))
ids = [i for i in ids if not json.load(open(f"{root}/{i}/meta.json")).get("superseded_by_fix")]  # no longer faults on the repaired tree
def one(i):
    meta = json.load(open(f"{root}/{i}/meta.json"))
    checks = [meta["property"]] + meta.get("also_checks", [])
    p = subprocess.run(["/verif/scripts/try_mutant.py", f"{root}/{i}", meta["property"], ".", "--no-suite", "--no-demo", "--checks", ",".join(checks)], stdout=subprocess.PIPE, stderr=subprocess.STDOUT)
    try:
        r = json.loads(p.stdout.decode())
    except Exception:
        return i, {"error": p.stdout.decode()[-500:]}
    return i, r
with concurrent.futures.ThreadPoolExecutor(max_workers=3) as ex:
    for i, r in ex.map(one, ids):
        meta = json.load(open(f"{root}/{i}/meta.json"))
        det = []
        for c in r.get("ran", []):
            det.append({"check": c["check"], "tier": "quick", "exit": c["exit"], "detected": c["exit"] == 1,
                        "class": next((l.strip().split(" ")[0] for l in c["lines"] if l.strip().startswith("class=")), "")})
        meta["detection"] = {"at": time.strftime("%Y-%m-%d %H:%M"), "results": det, "error": r.get("error")}
        json.dump(meta, open(f"{root}/{i}/meta.json", "w"), indent=1)
        print(i, [(d["check"], d["detected"], d["class"]) for d in det], r.get("error") or "")
