#!/bin/bash
# Runs every registered quick check on /repo and validates manifest + evidence.
cd /verif || exit 2
rc=0
for c in $(python3 -c "import json;print(' '.join(x['property_id'] for x in json.load(open('MANIFEST.json'))['checks']))"); do
  out=$(./bin/verif check $c --tier ${1:-quick} 2>&1); e=$?
  echo "$out" | grep -v "^KNOWN-FINDING" | tail -1
  echo "$out" | grep "^KNOWN-FINDING" | cut -c1-160
  if [ $e -ne 0 ]; then echo "  !! $c exit $e"; echo "$out" | tail -5; rc=1; fi
done
python3-vt - <<'PY'
import json,jsonschema,glob
m=json.load(open('/verif/MANIFEST.json'))
jsonschema.validate(m, json.load(open('/root/.vp/MANIFEST.schema.json')))
s=json.load(open('/root/.vp/EVIDENCE.schema.json'))
for c in m['checks']:
    jsonschema.validate(json.load(open(c['evidence_file'])), s)
print("manifest and", len(m['checks']), "evidence files valid")
PY
exit $rc
