#!/usr/bin/env python3
"""Evaluate one seeded change against the checks.

usage: try_mutant.py <mutant-dir> <PROPERTY> <demo-pkg-dir> [--checks C06,C07] [--no-suite] [--tier quick]

<mutant-dir> holds patch.diff and demo_test.go (or main.go). The script
  1. creates a scratch git worktree of /repo HEAD under /tmp, applies the patch,
  2. confirms: builds, root-module test suite passes (unless --no-suite),
     demonstration fails with the patch and passes without it,
  3. runs the named checks against the scratch tree (VERIF_REPO) and reports
     which ones raise a VIOLATION,
  4. removes the worktree.
Prints a JSON summary on the last line.
"""
import json, os, subprocess, sys, shutil, tempfile, time

def run(cmd, cwd=None, env=None, timeout=1800):
    p = subprocess.run(cmd, cwd=cwd, env=env, shell=isinstance(cmd, str), stdout=subprocess.PIPE, stderr=subprocess.STDOUT, timeout=timeout)
    return p.returncode, p.stdout.decode(errors="replace")

def main():
    args = sys.argv[1:]
    mdir, prop, pkg = os.path.abspath(args[0]), args[1], args[2]
    checks = [prop]
    suite = True
    tier = "quick"
    i = 3
    while i < len(args):
        if args[i] == "--checks":
            checks = args[i+1].split(","); i += 2
        elif args[i] == "--no-suite":
            suite = False; i += 1
        elif args[i] == "--tier":
            tier = args[i+1]; i += 2
        else:
            i += 1
    wt = tempfile.mkdtemp(prefix="mw-", dir="/tmp")
    os.rmdir(wt)
    res = {"mutant": mdir, "property": prop, "ran": []}
    try:
        rc, out = run(["git", "-C", "/repo", "worktree", "add", "-q", "--detach", wt, "HEAD"])
        if rc != 0:
            res["error"] = "worktree: " + out; return res
        patch = os.path.join(mdir, "patch.diff")
        # demonstration on the unchanged tree
        demo_src, is_main = None, False
        for name, ismain in (("demo_test.go", False), ("demo_test.go.txt", False), ("main.go", True), ("demo_main.go.txt", True)):
            if os.path.exists(os.path.join(mdir, name)):
                demo_src, is_main = os.path.join(mdir, name), ismain
                break
        if "--no-demo" in args:
            demo_src = None
        def run_demo():
            if demo_src is None:
                return 0, "(demo skipped)"
            if is_main:
                d = os.path.join(wt, "zz_demo_main")
                os.makedirs(d, exist_ok=True)
                shutil.copy(demo_src, os.path.join(d, "main.go"))
                rc, out = run("go run ./zz_demo_main", cwd=wt, timeout=900)
                shutil.rmtree(d)
                return rc, out
            dst = os.path.join(wt, pkg, "zz_demo_test.go")
            shutil.copy(demo_src, dst)
            rc, out = run("go test -vet=off -count=1 -run 'Demo|Mutant|C[0-9][0-9]|Test' -timeout 15m ./%s" % pkg if False else "go test -vet=off -count=1 -timeout 15m ./%s" % pkg, cwd=wt, timeout=1200)
            os.remove(dst)
            return rc, out
        rc0, out0 = run_demo()
        res["demo_without_patch"] = "pass" if rc0 == 0 else "FAIL"
        if rc0 != 0:
            res["demo_without_tail"] = out0[-1500:]
        rc, out = run(["git", "apply", "--whitespace=nowarn", patch], cwd=wt)
        if rc != 0:
            # the tree has moved on since the change was written (hooks, fixes):
            # fall back to a three-way merge on the recorded blobs
            rc, out2 = run(["git", "apply", "--3way", "--whitespace=nowarn", patch], cwd=wt)
            out += out2
            if rc == 0:
                res["applied_with_3way"] = True
                run(["git", "reset", "-q"], cwd=wt)
        if rc != 0:
            res["error"] = "patch does not apply: " + out[-800:]; return res
        rc, out = run("go build ./...", cwd=wt)
        res["builds"] = rc == 0
        if rc != 0:
            res["build_out"] = out[-800:]; return res
        rc1, out1 = run_demo()
        res["demo_with_patch"] = "pass" if rc1 == 0 else "FAIL"
        res["demo_with_tail"] = out1[-600:]
        if suite:
            t0 = time.time()
            rc, out = run("go test -vet=off -count=1 ./... 2>&1 | grep -v '^ok\\|no test files' | head -40", cwd=wt, timeout=1800)
            res["suite"] = "pass" if out.strip() == "" else "FAIL"
            if out.strip():
                res["suite_out"] = out[-1500:]
            res["suite_s"] = round(time.time() - t0)
        env = dict(os.environ, VERIF_REPO=wt)
        for c in checks:
            t0 = time.time()
            rc, out = run(["/verif/bin/verif", "check", c, "--tier", tier], cwd="/verif", env=env, timeout=3600)
            lines = [l for l in out.splitlines() if l.startswith("VIOLATION") or l.startswith("  class=") or l.startswith("INFRA") or l.startswith("KNOWN")]
            res["ran"].append({"check": c, "exit": rc, "s": round(time.time() - t0), "lines": [l[:400] for l in lines[:6]], "summary": out.splitlines()[-1][:300] if out.strip() else ""})
        return res
    finally:
        run(["git", "-C", "/repo", "worktree", "remove", "--force", wt])
        run(["git", "-C", "/repo", "worktree", "prune"])
        shutil.rmtree(wt, ignore_errors=True)

if __name__ == "__main__":
    r = main()
    print(json.dumps(r, indent=1))
