package sim

// getg returns the address of the running goroutine's descriptor. It is used
// as an opaque identity for the lifetime of a task: tasks bind at Start and are
// removed at Exit, so reuse of a descriptor by a later goroutine is harmless.
func getg() uintptr
