#include "textflag.h"

// func getg() uintptr
// Returns the address of the current goroutine's g structure, used only as an
// opaque identity (cheap replacement for parsing runtime.Stack output).
TEXT ·getg(SB),NOSPLIT,$0-8
	MOVQ (TLS), AX
	MOVQ AX, ret+0(FP)
	RET
