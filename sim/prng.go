// Package sim is the deterministic simulator: a seeded tape of choices, a task
// table for every goroutine the system under test starts, and a scheduler that
// runs exactly one parked task at a time inside a testing/synctest bubble.
package sim

// SplitMix64 is used to derive per-run and per-stream seeds.
func SplitMix64(x uint64) uint64 {
	x += 0x9e3779b97f4a7c15
	z := x
	z = (z ^ (z >> 30)) * 0xbf58476d1ce4e5b9
	z = (z ^ (z >> 27)) * 0x94d049bb133111eb
	return z ^ (z >> 31)
}

// Rng is xoshiro256**; it is our own so that a seed means the same stream under
// every Go release.
type Rng struct{ s [4]uint64 }

func NewRng(seed uint64) *Rng {
	r := &Rng{}
	x := seed
	for i := range r.s {
		x = SplitMix64(x)
		r.s[i] = x
	}
	return r
}

func rotl(x uint64, k uint) uint64 { return (x << k) | (x >> (64 - k)) }

func (r *Rng) Uint64() uint64 {
	res := rotl(r.s[1]*5, 7) * 9
	t := r.s[1] << 17
	r.s[2] ^= r.s[0]
	r.s[3] ^= r.s[1]
	r.s[1] ^= r.s[2]
	r.s[0] ^= r.s[3]
	r.s[2] ^= t
	r.s[3] = rotl(r.s[3], 45)
	return res
}

func (r *Rng) Intn(n int) int {
	if n <= 1 {
		return 0
	}
	return int(r.Uint64() % uint64(n))
}

// HashString is FNV-1a, used to derive stream seeds from names.
func HashString(s string) uint64 {
	h := uint64(14695981039346656037)
	for i := 0; i < len(s); i++ {
		h ^= uint64(s[i])
		h *= 1099511628211
	}
	return h
}
