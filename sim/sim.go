package sim

import (
	"fmt"
	"sort"
	"strings"
	"sync"
	"sync/atomic"
	"testing/synctest"
	"time"

	"github.com/risor-io/risor/internal/verifhook"
)

// AbortSentinel is the value panicked at the vm.eval hook when a run is being
// torn down. Risor's own recovers (vm.Run, vm.Call, object.NewThread) turn it
// into an ordinary error, so runaway loops unwind.
const AbortSentinel = "verif-sim-abort"

type TaskState int32

const (
	Announced TaskState = iota // Spawn called, goroutine not yet bound
	Parked                     // waiting at a hook for the baton
	Running                    // has the baton, or is blocked inside a real primitive
	Exited
)

type Task struct {
	critical int // depth of critical sections announced by the code under test (owner-only)
	ID       int
	Kind     string
	Name     string
	Parent   int
	state    TaskState
	site     string
	resume   chan struct{}
	gid      int64
	Steps    int
	prio     int
	// parkCount counts how often the task parked; seenPark is the last park the
	// scheduler has examined for site-aimed faults
	parkCount int
	seenPark  int
}

func (t *Task) Site() string { return t.site }

type TraceEntry struct {
	Task int
	Site string
}

type Verdict int

const (
	Done      Verdict = iota // Until() became true or every task exited
	Blocked                  // nothing runnable, nothing on the clock: deadlock / leak
	StepLimit                // MaxSteps reached
)

func (v Verdict) String() string {
	return [...]string{"done", "blocked", "steplimit"}[v]
}

// Sim is one simulated run. Create it inside a synctest bubble.
type Sim struct {
	gen uint64

	mu    sync.Mutex
	tasks []*Task
	byGID map[int64]*Task

	wake        chan struct{}
	aborting    atomic.Bool
	passthrough atomic.Bool

	Sched    *Stream
	strategy Strategy
	last     *Task

	Step     int
	MaxSteps int
	// IdleHorizon bounds how far the clock may jump while nothing is runnable.
	IdleHorizon time.Duration

	events       map[int][]event
	siteTriggers map[string][]siteTrigger
	siteParks    map[string]int
	// Until, if set, ends Run as soon as it returns true at a quiescent point.
	Until func() bool
	// OnQuiescent, if set, is called at every quiescent point before a task is
	// picked (invariant checks). Returning an error stops the run.
	OnQuiescent  func() error
	InvariantErr error

	Trace    []TraceEntry
	TraceCap int
	digest   uint64
	// frozen: the digest stops at the first cancellation-type event. After a
	// cancel, a select inside risor may have both ctx.Done and its channel
	// ready and the Go runtime picks at random (DESIGN 2.6), so traces are
	// only exact up to that instant.
	frozen     bool
	start      time.Time
	SiteCount  map[string]int
	Preempts   int
	PairSet    map[string]struct{}
	ClockJumps int

	// Notes collected through verifhook.Note, and the fault hook.
	Notes   []Note
	FaultFn func(site, detail string) error
	// MapOrderFn serves verifhook.MapOrder.
	MapOrderFn func(site string, n int) []int
}

type Note struct{ Site, Detail string }

type siteTrigger struct {
	nth  int
	name string
	fn   func()
	done bool
}

type event struct {
	name string
	fn   func()
}

// owners maps the identity of every bound, not yet exited task goroutine to
// its simulator, across runs.
var owners sync.Map

var (
	current  atomic.Pointer[Sim]
	genCount atomic.Uint64
	install  sync.Once
)

// The hook variables are written once, at package initialisation, before any
// goroutine of the system under test can exist.
func init() { installHooks() }

func installHooks() {
	install.Do(func() {
		verifhook.YieldFn = func(site string) {
			if s := current.Load(); s != nil {
				s.yield(site)
			}
		}
		verifhook.SpawnFn = func(kind string) uint64 {
			if s := current.Load(); s != nil {
				return s.spawn(kind)
			}
			return 0
		}
		verifhook.StartFn = func(tok uint64) {
			if s := current.Load(); s != nil {
				s.startTok(tok)
			}
		}
		verifhook.ExitFn = func(tok uint64) {
			if s := current.Load(); s != nil {
				s.exitTok(tok)
			}
		}
		verifhook.NoteFn = func(site, detail string) {
			if s := current.Load(); s != nil {
				s.mu.Lock()
				if s.lookupLocked() != nil {
					s.Notes = append(s.Notes, Note{site, detail})
				}
				s.mu.Unlock()
			}
		}
		verifhook.FaultFn = func(site, detail string) error {
			if s := current.Load(); s != nil && s.FaultFn != nil {
				s.mu.Lock()
				t := s.lookupLocked()
				s.mu.Unlock()
				if t != nil {
					return s.FaultFn(site, detail)
				}
			}
			return nil
		}
		verifhook.MapOrderFn = func(site string, n int) []int {
			if s := current.Load(); s != nil && s.MapOrderFn != nil {
				return s.MapOrderFn(site, n)
			}
			return nil
		}
	})
}

// New creates a simulator for one run and makes it the current one.
func New(sched *Stream, strat Strategy, maxSteps int) *Sim {
	installHooks()
	s := &Sim{
		gen:          genCount.Add(1),
		byGID:        map[int64]*Task{},
		wake:         make(chan struct{}, 1),
		Sched:        sched,
		strategy:     strat,
		MaxSteps:     maxSteps,
		IdleHorizon:  100000 * time.Hour,
		events:       map[int][]event{},
		siteTriggers: map[string][]siteTrigger{},
		siteParks:    map[string]int{},
		TraceCap:     4000,
		digest:       14695981039346656037,
		start:        time.Now(),
		SiteCount:    map[string]int{},
		PairSet:      map[string]struct{}{},
	}
	current.Store(s)
	return s
}

// Detach stops this simulator from receiving hook calls.
func (s *Sim) Detach() { current.CompareAndSwap(s, nil) }

func curGID() int64 { return int64(getg()) }

func (s *Sim) lookupLocked() *Task { return s.byGID[curGID()] }

func (s *Sim) lookup() *Task {
	g := curGID()
	s.mu.Lock()
	t := s.byGID[g]
	s.mu.Unlock()
	return t
}

func (s *Sim) signal() {
	select {
	case s.wake <- struct{}{}:
	default:
	}
}

func (s *Sim) newTaskLocked(kind string, parent int) *Task {
	t := &Task{ID: len(s.tasks), Kind: kind, Parent: parent, state: Announced, resume: make(chan struct{}, 1)}
	s.tasks = append(s.tasks, t)
	if s.strategy != nil {
		s.strategy.OnNewTask(s, t)
	}
	return t
}

func (s *Sim) token(t *Task) uint64 { return s.gen<<24 | uint64(t.ID+1) }

func (s *Sim) taskOf(tok uint64) *Task {
	if tok == 0 || tok>>24 != s.gen {
		return nil
	}
	id := int(tok&0xffffff) - 1
	s.mu.Lock()
	defer s.mu.Unlock()
	if id < 0 || id >= len(s.tasks) {
		return nil
	}
	return s.tasks[id]
}

// spawn is called by a parent that holds the baton, so task ids are allocated
// deterministically. A caller that is not a task of this run gets token 0.
func (s *Sim) spawn(kind string) uint64 {
	g := curGID()
	s.mu.Lock()
	defer s.mu.Unlock()
	p := s.byGID[g]
	if p == nil {
		return 0
	}
	t := s.newTaskLocked(kind, p.ID)
	return s.token(t)
}

func (s *Sim) startTok(tok uint64) {
	t := s.taskOf(tok)
	if t == nil {
		return
	}
	s.bindAndPark(t)
}

func (s *Sim) bindAndPark(t *Task) {
	g := curGID()
	owners.Store(g, s)
	s.mu.Lock()
	t.gid = g
	s.byGID[g] = t
	if s.aborting.Load() || s.passthrough.Load() {
		t.state = Running
		s.mu.Unlock()
		return
	}
	t.site = "start"
	t.state = Parked
	t.parkCount++
	s.mu.Unlock()
	s.signal()
	<-t.resume
}

func (s *Sim) exitTok(tok uint64) {
	t := s.taskOf(tok)
	if t == nil {
		return
	}
	s.exitTask(t)
}

func (s *Sim) exitTask(t *Task) {
	s.mu.Lock()
	t.state = Exited
	t.site = "exit"
	delete(s.byGID, t.gid)
	s.mu.Unlock()
	owners.Delete(t.gid)
	s.signal()
}

func (s *Sim) yield(site string) {
	if s.aborting.Load() {
		if site == "vm.eval" && s.lookup() != nil {
			panic(AbortSentinel)
		}
		return
	}
	if s.passthrough.Load() {
		return
	}
	t := s.lookup()
	if t != nil {
		// critical sections: the code under test says it holds a lock another
		// task may want (a task parked there would leave that task waiting on a
		// mutex, which is not a block the simulator can see)
		switch site {
		case "critical.enter":
			t.critical++
			return
		case "critical.exit":
			if t.critical > 0 {
				t.critical--
			}
			return
		}
		if t.critical > 0 {
			return
		}
	} else if site == "critical.enter" || site == "critical.exit" {
		return
	}
	if t == nil {
		// Not a task of this run. If it is a task of an EARLIER run that has
		// been torn down (it was blocked in a primitive when that run ended
		// and came back to life later), it must not keep executing script code
		// as an orphan: unwind it.
		if site == "vm.eval" {
			if o, ok := owners.Load(curGID()); ok && o.(*Sim) != s {
				panic(AbortSentinel)
			}
		}
		return
	}
	s.mu.Lock()
	t.site = site
	t.state = Parked
	t.parkCount++
	s.mu.Unlock()
	s.signal()
	<-t.resume
	if s.aborting.Load() && site == "vm.eval" {
		panic(AbortSentinel)
	}
}

// Parallel reports whether the run is inside a parallel window.
func (s *Sim) Parallel() bool { return s.passthrough.Load() }

// Yield lets harness code running inside a task (host builtins) mark its own
// scheduling points.
func (s *Sim) Yield(site string) { s.yield(site) }

// Go starts a harness-owned task (a host caller of the API under test). It
// must be called from the scheduler goroutine or from a task holding the
// baton.
func (s *Sim) Go(kind, name string, fn func()) *Task {
	parent := -1
	s.mu.Lock()
	if p := s.lookupLocked(); p != nil {
		parent = p.ID
	}
	t := s.newTaskLocked(kind, parent)
	t.Name = name
	s.mu.Unlock()
	go func() {
		s.bindAndPark(t)
		defer s.exitTask(t)
		fn()
	}()
	return t
}

// AtStep schedules fn to run in the scheduler goroutine, at a quiescent point,
// just before scheduler step k.
func (s *Sim) AtStep(k int, name string, fn func()) {
	s.mu.Lock()
	defer s.mu.Unlock()
	if k < s.Step {
		k = s.Step
	}
	s.events[k] = append(s.events[k], event{name, fn})
}

func (s *Sim) takeEvents(k int) []event {
	s.mu.Lock()
	defer s.mu.Unlock()
	evs := s.events[k]
	delete(s.events, k)
	return evs
}

// AtSite schedules fn to run in the scheduler goroutine at the quiescent point
// right after a task has parked at the given hook site for the nth time.
func (s *Sim) AtSite(site string, nth int, name string, fn func()) {
	s.mu.Lock()
	defer s.mu.Unlock()
	s.siteTriggers[site] = append(s.siteTriggers[site], siteTrigger{nth: nth, name: name, fn: fn})
}

// AtNextSite is AtSite for the next park at the site from now on.
func (s *Sim) AtNextSite(site, name string, fn func()) {
	s.mu.Lock()
	n := s.siteParks[site] + 1
	// parks at sites without a trigger are not counted yet: count from now
	if _, ok := s.siteTriggers[site]; !ok {
		s.siteParks[site] = 0
		n = 1
	}
	s.siteTriggers[site] = append(s.siteTriggers[site], siteTrigger{nth: n, name: name, fn: fn})
	s.mu.Unlock()
}

// Advance lets d of simulated time pass while every task stays where it is
// (models CPU time). Call from an event.
func (s *Sim) Advance(d time.Duration) {
	time.Sleep(d)
	synctest.Wait()
}

func (s *Sim) Now() time.Duration { return time.Since(s.start) }

func (s *Sim) SetStrategy(st Strategy) {
	s.strategy = st
	s.mu.Lock()
	for _, t := range s.tasks {
		st.OnNewTask(s, t)
	}
	s.mu.Unlock()
}

func (s *Sim) record(task int, site string) {
	if len(s.Trace) < s.TraceCap {
		s.Trace = append(s.Trace, TraceEntry{task, site})
	}
	if s.frozen {
		return
	}
	h := s.digest
	h ^= uint64(task + 1)
	h *= 1099511628211
	for i := 0; i < len(site); i++ {
		h ^= uint64(site[i])
		h *= 1099511628211
	}
	s.digest = h
}

// Digest is a hash of the (task, site | event) sequence so far.
func (s *Sim) Digest() uint64 { return s.digest }

// Mark adds a harness event (a fault, a phase change) to the trace.
func (s *Sim) Mark(name string) {
	s.record(-1, name)
	if strings.Contains(name, "cancel") || strings.Contains(name, "advance-clock") || strings.Contains(name, "parallel-window") {
		s.frozen = true
	}
}

// Tasks returns a snapshot of the task table.
func (s *Sim) Tasks() []*Task {
	s.mu.Lock()
	defer s.mu.Unlock()
	out := make([]*Task, len(s.tasks))
	copy(out, s.tasks)
	return out
}

func (s *Sim) State(t *Task) TaskState {
	s.mu.Lock()
	defer s.mu.Unlock()
	return t.state
}

// Alive returns the tasks that have not exited, split into those parked at a
// hook and those blocked inside a real primitive (or not yet bound).
func (s *Sim) Alive() (parked, blocked []*Task) {
	s.mu.Lock()
	defer s.mu.Unlock()
	for _, t := range s.tasks {
		switch t.state {
		case Parked:
			parked = append(parked, t)
		case Running, Announced:
			blocked = append(blocked, t)
		}
	}
	return
}

func (s *Sim) drainWake() {
	for {
		select {
		case <-s.wake:
		default:
			return
		}
	}
}

// Run drives the tasks until Until() holds, every task has exited, nothing can
// make progress, or MaxSteps is reached.
func (s *Sim) Run() Verdict {
	for {
		synctest.Wait()
		s.drainWake()
		if evs := s.takeEvents(s.Step); len(evs) > 0 {
			for _, ev := range evs {
				s.Mark("event:" + ev.name)
				ev.fn()
				synctest.Wait()
			}
			s.drainWake()
		}
		if s.OnQuiescent != nil {
			if err := s.OnQuiescent(); err != nil {
				s.InvariantErr = err
				return Done
			}
		}
		if s.Until != nil && s.Until() {
			return Done
		}
		parked, blocked := s.Alive()
		if len(s.siteTriggers) > 0 {
			// faults aimed at a site land at the quiescent point right after a
			// task has parked there (inside a blocking primitive or a slow OS
			// call, before a start or a fire); who runs next is then the
			// strategy's choice
			sort.Slice(parked, func(i, j int) bool { return parked[i].ID < parked[j].ID })
			fired := false
			for _, t := range parked {
				if t.seenPark == t.parkCount {
					continue
				}
				t.seenPark = t.parkCount
				key := t.site
				tr, ok := s.siteTriggers[key]
				if !ok {
					// "*" = any site other than the instruction boundary
					if t.site == "vm.eval" {
						continue
					}
					key = "*"
					if tr, ok = s.siteTriggers[key]; !ok {
						continue
					}
				}
				s.siteParks[key]++
				for i := range tr {
					if !tr[i].done && s.siteParks[key] == tr[i].nth {
						tr[i].done = true
						s.Mark("event:" + tr[i].name + "@" + t.site)
						tr[i].fn()
						synctest.Wait()
						fired = true
					}
				}
			}
			if fired {
				s.drainWake()
				parked, blocked = s.Alive()
			}
		}
		if len(parked) == 0 {
			if len(blocked) == 0 {
				return Done
			}
			// Pending events at later steps can still change things: fire the
			// next one now rather than declaring a deadlock.
			if next, ok := s.nextEventStep(); ok {
				for _, ev := range s.takeEvents(next) {
					s.Mark("event:" + ev.name)
					ev.fn()
					synctest.Wait()
				}
				continue
			}
			// Everybody is inside a real primitive. Let the fake clock run to
			// the next timer; if there is none before the horizon, the run is
			// blocked.
			timer := time.NewTimer(s.IdleHorizon)
			select {
			case <-s.wake:
				timer.Stop()
				s.ClockJumps++
				continue
			case <-timer.C:
				return Blocked
			}
		}
		if s.Step >= s.MaxSteps {
			return StepLimit
		}
		sort.Slice(parked, func(i, j int) bool { return parked[i].ID < parked[j].ID })
		pick := s.strategy.Pick(s, parked)
		if s.last != nil && s.last != pick && s.State(s.last) == Parked {
			s.Preempts++
			s.PairSet[s.last.site+">"+pick.site] = struct{}{}
		}
		s.SiteCount[pick.site]++
		s.record(pick.ID, pick.site)
		pick.Steps++
		s.last = pick
		s.Step++
		s.mu.Lock()
		pick.state = Running
		s.mu.Unlock()
		pick.resume <- struct{}{}
	}
}

func (s *Sim) nextEventStep() (int, bool) {
	s.mu.Lock()
	defer s.mu.Unlock()
	best, ok := 0, false
	for k := range s.events {
		if !ok || k < best {
			best, ok = k, true
		}
	}
	return best, ok
}

// FreeRun opens a parallel window: hooks turn into pass-throughs and every
// parked task is released at once, so from here on the tasks run truly in
// parallel (used with the race detector). Run() keeps waiting for them.
func (s *Sim) FreeRun() {
	s.passthrough.Store(true)
	s.mu.Lock()
	var parked []*Task
	for _, t := range s.tasks {
		if t.state == Parked {
			t.state = Running
			parked = append(parked, t)
		}
	}
	s.mu.Unlock()
	for _, t := range parked {
		t.resume <- struct{}{}
	}
}

// EndFreeRun closes the parallel window: from their next hook on, tasks park
// again and the baton scheduler is back in charge.
func (s *Sim) EndFreeRun() { s.passthrough.Store(false) }

// Shutdown tears the run down: hooks go to abort mode, every parked task is
// released, and the caller's cancel functions are invoked so that tasks inside
// real primitives wake up. It returns the tasks that still have not exited
// (stuck in a primitive that ignores its context).
func (s *Sim) Shutdown(cancels ...func()) []*Task {
	s.aborting.Store(true)
	for _, c := range cancels {
		if c != nil {
			c()
		}
	}
	for round := 0; round < 50; round++ {
		s.mu.Lock()
		var parked []*Task
		for _, t := range s.tasks {
			if t.state == Parked {
				t.state = Running
				parked = append(parked, t)
			}
		}
		s.mu.Unlock()
		for _, t := range parked {
			select {
			case t.resume <- struct{}{}:
			default:
			}
		}
		synctest.Wait()
		p, b := s.Alive()
		if len(p) == 0 && len(b) == 0 {
			break
		}
		if len(p) == 0 {
			// blocked in primitives: let timers (if any) fire once
			timer := time.NewTimer(s.IdleHorizon)
			select {
			case <-s.wake:
				timer.Stop()
			case <-timer.C:
				round = 1000
			}
		}
	}
	s.Detach()
	_, b := s.Alive()
	return b
}

// RenderTrace renders the first n trace entries as "task@site" words.
func (s *Sim) RenderTrace(n int) string {
	var b strings.Builder
	for i, e := range s.Trace {
		if i >= n {
			fmt.Fprintf(&b, " …(+%d)", len(s.Trace)-n)
			break
		}
		if i > 0 {
			b.WriteByte(' ')
		}
		if e.Task < 0 {
			fmt.Fprintf(&b, "[%s]", e.Site)
		} else {
			fmt.Fprintf(&b, "%d@%s", e.Task, e.Site)
		}
	}
	return b.String()
}
