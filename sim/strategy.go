package sim

// Strategy decides which parked task gets the baton. Every choice is a draw
// from the schedule stream; a draw of 0 always means "the simplest thing"
// (keep running the current task, else the lowest task id) so that an
// exhausted or zeroed replay tape gives the canonical sequential schedule.
type Strategy interface {
	Name() string
	OnNewTask(s *Sim, t *Task)
	Pick(s *Sim, runnable []*Task) *Task
}

func indexOf(ts []*Task, t *Task) int {
	for i, x := range ts {
		if x == t {
			return i
		}
	}
	return -1
}

// pickOther draws uniformly among runnable, with 0 = lowest id.
func pickAny(s *Sim, runnable []*Task) *Task { return runnable[s.Sched.Intn(len(runnable))] }

// ---- random ----

type Random struct{}

func (Random) Name() string                 { return "random" }
func (Random) OnNewTask(*Sim, *Task)        {}
func (Random) Pick(s *Sim, r []*Task) *Task { return pickAny(s, r) }

// ---- sticky ----

// Sticky keeps the current task with probability 1-1/Den.
type Sticky struct{ Den int }

func (Sticky) Name() string          { return "sticky" }
func (Sticky) OnNewTask(*Sim, *Task) {}
func (st Sticky) Pick(s *Sim, r []*Task) *Task {
	if s.last != nil && indexOf(r, s.last) >= 0 {
		if len(r) == 1 || !s.Sched.Chance(1, st.Den) {
			return s.last
		}
		// preempt: choose among the others
		others := make([]*Task, 0, len(r)-1)
		for _, t := range r {
			if t != s.last {
				others = append(others, t)
			}
		}
		return pickAny(s, others)
	}
	return pickAny(s, r)
}

// ---- targeted ----

// Targeted behaves like Sticky but forces a preemption with high probability
// when the current task has just parked at an interesting site.
type Targeted struct {
	Den   int
	Sites map[string]bool
}

var DefaultTargetSites = map[string]bool{
	"chan.next.done": true, "chan.recv.done": true, "chan.send.done": true,
	"vm.watcher.fire": true, "start": true, "reg.lock": true, "vm.clone": true,
	"vm.import": true, "thread.wait": true, "chan.close": true, "time.sleep.done": true,
	"thread.wait.done": true,
}

func (Targeted) Name() string          { return "targeted" }
func (Targeted) OnNewTask(*Sim, *Task) {}
func (tg Targeted) Pick(s *Sim, r []*Task) *Task {
	if s.last != nil && indexOf(r, s.last) >= 0 && len(r) > 1 {
		den := tg.Den
		hot := tg.Sites[s.last.site]
		var preempt bool
		if hot {
			preempt = s.Sched.Chance(3, 4)
		} else {
			preempt = s.Sched.Chance(1, den)
		}
		if !preempt {
			return s.last
		}
		others := make([]*Task, 0, len(r)-1)
		for _, t := range r {
			if t != s.last {
				others = append(others, t)
			}
		}
		return pickAny(s, others)
	}
	if s.last != nil && indexOf(r, s.last) >= 0 {
		return s.last
	}
	return pickAny(s, r)
}

// ---- PCT ----

// PCT assigns every task a random priority and runs the highest-priority
// runnable task; at D tape-chosen steps the running task drops to the lowest
// priority. Low-priority tasks starve, which models a slow or stalled node.
type PCT struct {
	D       int
	Horizon int
	change  map[int]bool
	low     int
	inited  bool
}

func (p *PCT) Name() string { return "pct" }
func (p *PCT) init(s *Sim) {
	if p.inited {
		return
	}
	p.inited = true
	p.change = map[int]bool{}
	h := p.Horizon
	if h < 1 {
		h = 1
	}
	for i := 0; i < p.D; i++ {
		p.change[s.Step+s.Sched.Intn(h)] = true
	}
	p.low = -1
}
func (p *PCT) OnNewTask(s *Sim, t *Task) { t.prio = 0 }
func (p *PCT) Pick(s *Sim, r []*Task) *Task {
	p.init(s)
	// priorities are drawn here, in the scheduler goroutine, in task-id order
	for _, t := range r {
		if t.prio == 0 {
			t.prio = 1 + s.Sched.Intn(1000)
		}
	}
	best := r[0]
	for _, t := range r[1:] {
		if t.prio > best.prio {
			best = t
		}
	}
	if p.change[s.Step] {
		best.prio = p.low
		p.low--
		best = r[0]
		for _, t := range r[1:] {
			if t.prio > best.prio {
				best = t
			}
		}
	}
	return best
}

// ---- fair ----

// Fair is round-robin by task id; used once faults have stopped and a liveness
// bound is being measured. It draws nothing from the tape.
type Fair struct{}

func (Fair) Name() string          { return "fair" }
func (Fair) OnNewTask(*Sim, *Task) {}
func (Fair) Pick(s *Sim, r []*Task) *Task {
	if s.last != nil {
		for _, t := range r {
			if t.ID > s.last.ID {
				return t
			}
		}
	}
	return r[0]
}

// DrawStrategy picks a strategy from the tape (swarm style).
func DrawStrategy(st *Stream, horizon int) Strategy {
	switch st.Intn(5) {
	case 0:
		return Sticky{Den: 4 + st.Intn(3)*12}
	case 1:
		return Random{}
	case 2:
		return &PCT{D: 1 + st.Intn(3), Horizon: horizon}
	case 3:
		return Targeted{Den: 10 + st.Intn(3)*15, Sites: DefaultTargetSites}
	default:
		return Sticky{Den: 2 + st.Intn(2)}
	}
}
