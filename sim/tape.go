package sim

import "sort"

// Tape is the single source of every random choice in a run. It is split into
// named streams (program generation, schedule, faults, ...) so that the
// minimiser can shrink one without shifting the meaning of the others. In
// generation mode a stream draws from its own PRNG (seeded from the run seed and
// the stream name) and records; in replay mode it plays the recorded integers
// back and yields 0 once exhausted, which every consumer maps to its simplest
// choice.
type Tape struct {
	Seed    uint64
	streams map[string]*Stream
	replay  bool
}

type Stream struct {
	name   string
	rng    *Rng
	Rec    []int
	pos    int
	replay bool
}

func NewTape(seed uint64) *Tape {
	return &Tape{Seed: seed, streams: map[string]*Stream{}}
}

// ReplayTape builds a tape that plays back the given recorded streams.
func ReplayTape(seed uint64, rec map[string][]int) *Tape {
	t := &Tape{Seed: seed, streams: map[string]*Stream{}, replay: true}
	for name, r := range rec {
		cp := make([]int, len(r))
		copy(cp, r)
		t.streams[name] = &Stream{name: name, Rec: cp, replay: true}
	}
	return t
}

func (t *Tape) Stream(name string) *Stream {
	if s, ok := t.streams[name]; ok {
		return s
	}
	s := &Stream{name: name, replay: t.replay}
	if !t.replay {
		s.rng = NewRng(SplitMix64(t.Seed ^ HashString(name)))
	}
	t.streams[name] = s
	return s
}

// Recorded returns a copy of what each stream consumed so far (generation
// mode) or was given (replay mode, truncated to what was consumed).
func (t *Tape) Recorded() map[string][]int {
	out := map[string][]int{}
	names := make([]string, 0, len(t.streams))
	for n := range t.streams {
		names = append(names, n)
	}
	sort.Strings(names)
	for _, n := range names {
		s := t.streams[n]
		var r []int
		if s.replay {
			k := s.pos
			if k > len(s.Rec) {
				k = len(s.Rec)
			}
			r = append(r, s.Rec[:k]...)
		} else {
			r = append(r, s.Rec...)
		}
		out[n] = r
	}
	return out
}

// Intn returns a value in [0, n). n <= 1 consumes nothing and returns 0.
func (s *Stream) Intn(n int) int {
	if n <= 1 {
		return 0
	}
	if s.replay {
		if s.pos >= len(s.Rec) {
			s.pos++
			return 0
		}
		v := s.Rec[s.pos]
		s.pos++
		if v < 0 {
			v = -v
		}
		return v % n
	}
	v := s.rng.Intn(n)
	s.Rec = append(s.Rec, v)
	return v
}

// Range returns a value in [lo, hi].
func (s *Stream) Range(lo, hi int) int {
	if hi <= lo {
		return lo
	}
	return lo + s.Intn(hi-lo+1)
}

// Chance returns true with probability num/den. The simplest choice (0) is
// false.
func (s *Stream) Chance(num, den int) bool {
	if num <= 0 {
		return false
	}
	return s.Intn(den) >= den-num
}

// Bool is Chance(1,2).
func (s *Stream) Bool() bool { return s.Intn(2) == 1 }

// Pos is how many draws were consumed.
func (s *Stream) Pos() int {
	if s.replay {
		return s.pos
	}
	return len(s.Rec)
}
