// Package simos is the simulator's operating system: an in-memory file tree,
// environment, identity and stdio whose contents are disjoint from the real
// machine's, a log of every call that reaches it, and a fault plan that makes
// calls fail (EIO, ENOSPC, short writes, failing close) at chosen call indices.
// It implements risor's os.OS interface and is handed to scripts through
// risor.WithOS or os.WithOS(ctx).
package simos

import (
	"errors"
	"fmt"
	"io"
	"io/fs"
	"path"
	"sort"
	"strings"
	"sync"
	"syscall"
	"time"

	ros "github.com/risor-io/risor/os"
)

type Call struct {
	Seq    int
	Method string
	Args   string
	Err    string
	Failed bool // failed because of an injected fault
}

type node struct {
	dir     bool
	data    []byte
	mode    fs.FileMode
	symlink string
}

// ErrInjected wraps the errno injected by the fault plan.
type ErrInjected struct{ Errno syscall.Errno }

func (e *ErrInjected) Error() string { return "sim-injected: " + e.Errno.Error() }
func (e *ErrInjected) Unwrap() error { return e.Errno }

type SimOS struct {
	mu    sync.Mutex
	calls []Call
	nodes map[string]*node
	env   map[string]string
	cwd   string

	Pid       int
	Uid       int
	Host      string
	Temp      string
	ArgsV     []string
	stdin     *stdFile
	stdout    *stdFile
	stderr    *stdFile
	Exits     []int
	tempCount int

	// Fault plan. Failable calls are counted from 1.
	FailAll    bool
	FailAt     map[int]bool
	Errno      syscall.Errno
	failable   int
	Injected   int
	ShortWrite bool
	// YieldFn, if set, is called at the start of every OS call (outside the
	// lock): the simulator uses it to deschedule the caller inside the call.
	YieldFn func(site string)
	// RelCwd, if set, is what Getwd reports (a relative path); path resolution
	// treats it as an alias of the real simulated cwd.
	RelCwd string
}

var epoch = time.Date(2001, 2, 3, 4, 5, 6, 0, time.UTC)

// New builds the standard simulated machine.
func New() *SimOS {
	s := &SimOS{
		nodes: map[string]*node{}, env: map[string]string{},
		cwd: "/simroot/work", Pid: 424242, Uid: 31337, Host: "sim-host", Temp: "/simroot/tmp",
		ArgsV: []string{"sim-arg0", "sim-arg1"}, FailAt: map[int]bool{}, Errno: syscall.EIO,
	}
	for _, d := range []string{"/", "/simroot", "/simroot/work", "/simroot/work/dir", "/simroot/work/dir/sub", "/simroot/tmp", "/simroot/home", "/simroot/home/simuser", "/simroot/cache", "/simroot/config"} {
		s.nodes[d] = &node{dir: true, mode: fs.ModeDir | 0o755}
	}
	s.nodes["/simroot/work/a.txt"] = &node{data: []byte("alpha-sim\nline2-sim\n"), mode: 0o644}
	s.nodes["/simroot/work/dir/b.txt"] = &node{data: []byte("beta-sim"), mode: 0o644}
	s.nodes["/simroot/work/dir/sub/c.txt"] = &node{data: []byte("gamma-sim"), mode: 0o600}
	s.env["VERIF_SENTINEL"] = "sim-value"
	s.env["SIMONLY"] = "only-in-sim"
	s.env["HOME"] = "/simroot/home/simuser"
	s.stdin = &stdFile{os: s, name: "stdin", data: []byte("sim-stdin-line1\nsim-stdin-line2\n")}
	s.stdout = &stdFile{os: s, name: "stdout"}
	s.stderr = &stdFile{os: s, name: "stderr"}
	return s
}

// ---- log and faults

func (s *SimOS) log(method string, failable bool, args ...any) (idx int, err error) {
	if s.YieldFn != nil {
		// a slow device: the caller may be descheduled inside the OS call
		s.YieldFn("simos." + method)
	}
	s.mu.Lock()
	defer s.mu.Unlock()
	var as []string
	for _, a := range args {
		as = append(as, fmt.Sprint(a))
	}
	c := Call{Seq: len(s.calls), Method: method, Args: strings.Join(as, ",")}
	if failable {
		s.failable++
		if s.FailAll || s.FailAt[s.failable] {
			s.Injected++
			c.Failed = true
			err = &ErrInjected{s.Errno}
			c.Err = err.Error()
		}
	}
	s.calls = append(s.calls, c)
	return c.Seq, err
}

// SetBlockingStdin makes the standard input a stream whose reads wait, once
// data is used up, until the stream is closed (a pipe nobody writes to). Call
// it inside the bubble.
func (s *SimOS) SetBlockingStdin(data string) {
	s.mu.Lock()
	defer s.mu.Unlock()
	s.stdin = &stdFile{os: s, name: "stdin", data: []byte(data), block: make(chan struct{})}
}

// SetStdin replaces what the simulated standard input holds.
func (s *SimOS) SetStdin(data string) {
	s.mu.Lock()
	s.stdin = &stdFile{os: s, name: "stdin", data: []byte(data)}
	s.mu.Unlock()
}

// Prepare runs host-side set-up on the simulated machine: no faults are
// injected into it, and the call log and fault counters start afresh afterwards.
func (s *SimOS) Prepare(fn func()) {
	s.mu.Lock()
	all, at, y := s.FailAll, s.FailAt, s.YieldFn
	s.FailAll, s.FailAt, s.YieldFn = false, map[int]bool{}, nil
	s.mu.Unlock()
	fn()
	s.mu.Lock()
	s.FailAll, s.FailAt, s.YieldFn = all, at, y
	s.calls = nil
	s.failable = 0
	s.Injected = 0
	s.mu.Unlock()
}

func (s *SimOS) setErr(idx int, err error) error {
	if err != nil {
		s.mu.Lock()
		s.calls[idx].Err = err.Error()
		s.mu.Unlock()
	}
	return err
}

func (s *SimOS) Calls() []Call {
	s.mu.Lock()
	defer s.mu.Unlock()
	out := make([]Call, len(s.calls))
	copy(out, s.calls)
	return out
}

// Methods returns the distinct method names that were called.
func (s *SimOS) Methods() map[string]int {
	m := map[string]int{}
	for _, c := range s.Calls() {
		m[c.Method]++
	}
	return m
}

func (s *SimOS) StdoutString() string { return string(s.stdout.out) }
func (s *SimOS) StderrString() string { return string(s.stderr.out) }

// Snapshot renders the whole state (tree, env, cwd) for divergence checks.
func (s *SimOS) Snapshot() string {
	s.mu.Lock()
	defer s.mu.Unlock()
	var lines []string
	for p, n := range s.nodes {
		if n.dir {
			lines = append(lines, "D "+p)
		} else if n.symlink != "" {
			lines = append(lines, "L "+p+" -> "+n.symlink)
		} else {
			lines = append(lines, fmt.Sprintf("F %s %q", p, n.data))
		}
	}
	for k, v := range s.env {
		lines = append(lines, "E "+k+"="+v)
	}
	lines = append(lines, "C "+s.cwd)
	sort.Strings(lines)
	return strings.Join(lines, "\n")
}

// ---- path helpers

func (s *SimOS) abs(name string) string {
	if s.RelCwd != "" && (name == s.RelCwd || strings.HasPrefix(name, s.RelCwd+"/")) {
		name = s.cwd + strings.TrimPrefix(name, s.RelCwd)
	}
	if !strings.HasPrefix(name, "/") {
		name = s.cwd + "/" + name
	}
	return path.Clean(name)
}

func pathErr(op, name string, err error) error { return &fs.PathError{Op: op, Path: name, Err: err} }

func (s *SimOS) lookup(p string) (*node, bool) {
	n, ok := s.nodes[p]
	for i := 0; ok && n.symlink != "" && i < 8; i++ {
		p = n.symlink
		n, ok = s.nodes[p]
	}
	return n, ok
}

// ---- FS

func (s *SimOS) Create(name string) (ros.File, error) {
	idx, err := s.log("Create", true, name)
	if err != nil {
		return nil, err
	}
	f, err := s.openFile(name, ros.O_RDWR|ros.O_CREATE|ros.O_TRUNC, 0o666, "open")
	return f, s.setErr(idx, err)
}

func (s *SimOS) openFile(name string, flag int, perm fs.FileMode, op string) (ros.File, error) {
	p := s.abs(name)
	s.mu.Lock()
	defer s.mu.Unlock()
	n, ok := s.lookup(p)
	if !ok {
		if flag&ros.O_CREATE == 0 {
			return nil, pathErr(op, name, fs.ErrNotExist)
		}
		if parent, pok := s.lookup(path.Dir(p)); !pok || !parent.dir {
			return nil, pathErr(op, name, fs.ErrNotExist)
		}
		n = &node{mode: perm}
		s.nodes[p] = n
	} else if flag&ros.O_CREATE != 0 && flag&ros.O_EXCL != 0 {
		return nil, pathErr(op, name, fs.ErrExist)
	}
	if n.dir {
		return &simFile{os: s, path: p, n: n, isDir: true}, nil
	}
	if flag&ros.O_TRUNC != 0 {
		n.data = nil
	}
	f := &simFile{os: s, path: p, n: n, writable: flag&(ros.O_WRONLY|ros.O_RDWR) != 0, append: flag&ros.O_APPEND != 0}
	return f, nil
}

func (s *SimOS) Mkdir(name string, perm ros.FileMode) error {
	idx, err := s.log("Mkdir", true, name)
	if err != nil {
		return err
	}
	p := s.abs(name)
	s.mu.Lock()
	defer s.mu.Unlock()
	if _, ok := s.nodes[p]; ok {
		return s.setErrLocked(idx, pathErr("mkdir", name, fs.ErrExist))
	}
	if parent, ok := s.lookup(path.Dir(p)); !ok || !parent.dir {
		return s.setErrLocked(idx, pathErr("mkdir", name, fs.ErrNotExist))
	}
	s.nodes[p] = &node{dir: true, mode: fs.ModeDir | perm}
	return nil
}

func (s *SimOS) setErrLocked(idx int, err error) error {
	if err != nil {
		s.calls[idx].Err = err.Error()
	}
	return err
}

func (s *SimOS) MkdirAll(name string, perm ros.FileMode) error {
	_, err := s.log("MkdirAll", true, name)
	if err != nil {
		return err
	}
	p := s.abs(name)
	s.mu.Lock()
	defer s.mu.Unlock()
	parts := strings.Split(strings.TrimPrefix(p, "/"), "/")
	cur := ""
	for _, part := range parts {
		cur += "/" + part
		if n, ok := s.nodes[cur]; ok {
			if !n.dir {
				return pathErr("mkdir", name, syscall.ENOTDIR)
			}
			continue
		}
		s.nodes[cur] = &node{dir: true, mode: fs.ModeDir | perm}
	}
	return nil
}

func (s *SimOS) Open(name string) (ros.File, error) {
	idx, err := s.log("Open", true, name)
	if err != nil {
		return nil, err
	}
	f, err := s.openFile(name, ros.O_RDONLY, 0, "open")
	return f, s.setErr(idx, err)
}

func (s *SimOS) OpenFile(name string, flag int, perm ros.FileMode) (ros.File, error) {
	idx, err := s.log("OpenFile", true, name, flag)
	if err != nil {
		return nil, err
	}
	f, err := s.openFile(name, flag, perm, "open")
	return f, s.setErr(idx, err)
}

func (s *SimOS) ReadFile(name string) ([]byte, error) {
	idx, err := s.log("ReadFile", true, name)
	if err != nil {
		return nil, err
	}
	s.mu.Lock()
	defer s.mu.Unlock()
	n, ok := s.lookup(s.abs(name))
	if !ok {
		return nil, s.setErrLocked(idx, pathErr("open", name, fs.ErrNotExist))
	}
	if n.dir {
		return nil, s.setErrLocked(idx, pathErr("read", name, syscall.EISDIR))
	}
	return append([]byte(nil), n.data...), nil
}

func (s *SimOS) Remove(name string) error {
	idx, err := s.log("Remove", true, name)
	if err != nil {
		return err
	}
	p := s.abs(name)
	s.mu.Lock()
	defer s.mu.Unlock()
	n, ok := s.nodes[p]
	if !ok {
		return s.setErrLocked(idx, pathErr("remove", name, fs.ErrNotExist))
	}
	if n.dir {
		for q := range s.nodes {
			if strings.HasPrefix(q, p+"/") {
				return s.setErrLocked(idx, pathErr("remove", name, syscall.ENOTEMPTY))
			}
		}
	}
	delete(s.nodes, p)
	return nil
}

func (s *SimOS) RemoveAll(name string) error {
	_, err := s.log("RemoveAll", true, name)
	if err != nil {
		return err
	}
	p := s.abs(name)
	s.mu.Lock()
	defer s.mu.Unlock()
	for q := range s.nodes {
		if q == p || strings.HasPrefix(q, p+"/") {
			delete(s.nodes, q)
		}
	}
	return nil
}

func (s *SimOS) Rename(oldpath, newpath string) error {
	idx, err := s.log("Rename", true, oldpath, newpath)
	if err != nil {
		return err
	}
	o, n := s.abs(oldpath), s.abs(newpath)
	s.mu.Lock()
	defer s.mu.Unlock()
	if _, ok := s.nodes[o]; !ok {
		return s.setErrLocked(idx, &fs.PathError{Op: "rename", Path: oldpath, Err: fs.ErrNotExist})
	}
	moved := map[string]*node{}
	for q, nd := range s.nodes {
		if q == o || strings.HasPrefix(q, o+"/") {
			moved[n+strings.TrimPrefix(q, o)] = nd
			delete(s.nodes, q)
		}
	}
	for q, nd := range moved {
		s.nodes[q] = nd
	}
	return nil
}

func (s *SimOS) info(p string, n *node) ros.FileInfo {
	return ros.NewFileInfo(ros.GenericFileInfoOpts{Name: path.Base(p), Size: int64(len(n.data)), Mode: n.mode, ModTime: epoch, IsDir: n.dir})
}

func (s *SimOS) Stat(name string) (ros.FileInfo, error) {
	idx, err := s.log("Stat", true, name)
	if err != nil {
		return nil, err
	}
	p := s.abs(name)
	s.mu.Lock()
	defer s.mu.Unlock()
	n, ok := s.lookup(p)
	if !ok {
		return nil, s.setErrLocked(idx, pathErr("stat", name, fs.ErrNotExist))
	}
	return s.info(p, n), nil
}

func (s *SimOS) Symlink(oldname, newname string) error {
	idx, err := s.log("Symlink", true, oldname, newname)
	if err != nil {
		return err
	}
	s.mu.Lock()
	defer s.mu.Unlock()
	p := s.abs(newname)
	if _, ok := s.nodes[p]; ok {
		return s.setErrLocked(idx, pathErr("symlink", newname, fs.ErrExist))
	}
	s.nodes[p] = &node{symlink: s.abs(oldname), mode: fs.ModeSymlink | 0o777}
	return nil
}

func (s *SimOS) WriteFile(name string, data []byte, perm ros.FileMode) error {
	idx, err := s.log("WriteFile", true, name, len(data))
	if err != nil {
		return err
	}
	p := s.abs(name)
	s.mu.Lock()
	defer s.mu.Unlock()
	if parent, ok := s.lookup(path.Dir(p)); !ok || !parent.dir {
		return s.setErrLocked(idx, pathErr("open", name, fs.ErrNotExist))
	}
	if n, ok := s.lookup(p); ok {
		if n.dir {
			return s.setErrLocked(idx, pathErr("open", name, syscall.EISDIR))
		}
		n.data = append([]byte(nil), data...)
		return nil
	}
	s.nodes[p] = &node{data: append([]byte(nil), data...), mode: perm}
	return nil
}

func (s *SimOS) children(p string) []string {
	var names []string
	for q := range s.nodes {
		if q != p && path.Dir(q) == p {
			names = append(names, path.Base(q))
		}
	}
	sort.Strings(names)
	return names
}

func (s *SimOS) ReadDir(name string) ([]ros.DirEntry, error) {
	idx, err := s.log("ReadDir", true, name)
	if err != nil {
		return nil, err
	}
	p := s.abs(name)
	s.mu.Lock()
	defer s.mu.Unlock()
	n, ok := s.lookup(p)
	if !ok {
		return nil, s.setErrLocked(idx, pathErr("open", name, fs.ErrNotExist))
	}
	if !n.dir {
		return nil, s.setErrLocked(idx, pathErr("readdir", name, syscall.ENOTDIR))
	}
	var out []ros.DirEntry
	for _, c := range s.children(p) {
		cn := s.nodes[p+"/"+c]
		if p == "/" {
			cn = s.nodes["/"+c]
		}
		gi := ros.NewFileInfo(ros.GenericFileInfoOpts{Name: c, Size: int64(len(cn.data)), Mode: cn.mode, ModTime: epoch, IsDir: cn.dir})
		out = append(out, &simDirEntry{os: s, dir: name, name: c, mode: cn.mode, isDir: cn.dir, info: gi})
	}
	return out, nil
}

// simDirEntry is a directory entry whose Info() is a (failable, logged) call
// of its own, like an lstat after the readdir.
type simDirEntry struct {
	os    *SimOS
	dir   string
	name  string
	mode  fs.FileMode
	isDir bool
	info  fs.FileInfo
}

func (e *simDirEntry) Name() string      { return e.name }
func (e *simDirEntry) IsDir() bool       { return e.isDir }
func (e *simDirEntry) Type() fs.FileMode { return e.mode.Type() }
func (e *simDirEntry) HasInfo() bool     { return true }
func (e *simDirEntry) Info() (fs.FileInfo, error) {
	if _, err := e.os.log("DirEntry.Info", true, e.dir+"/"+e.name); err != nil {
		return nil, err
	}
	return e.info, nil
}

func (s *SimOS) WalkDir(root string, fn ros.WalkDirFunc) error {
	_, err := s.log("WalkDir", true, root)
	if err != nil {
		return err
	}
	p := s.abs(root)
	s.mu.Lock()
	n, ok := s.lookup(p)
	var paths []string
	if ok {
		for q := range s.nodes {
			if q == p || strings.HasPrefix(q, strings.TrimSuffix(p, "/")+"/") {
				paths = append(paths, q)
			}
		}
	}
	sort.Strings(paths)
	type ent struct {
		rel string
		de  fs.DirEntry
	}
	var ents []ent
	for _, q := range paths {
		qn := s.nodes[q]
		rel := root + strings.TrimPrefix(q, p)
		gi := ros.NewFileInfo(ros.GenericFileInfoOpts{Name: path.Base(q), Size: int64(len(qn.data)), Mode: qn.mode, ModTime: epoch, IsDir: qn.dir})
		ents = append(ents, ent{rel, ros.NewDirEntry(ros.GenericDirEntryOpts{Name: path.Base(q), Mode: qn.mode, Info: gi})})
	}
	s.mu.Unlock()
	if !ok {
		return fn(root, nil, pathErr("lstat", root, fs.ErrNotExist))
	}
	_ = n
	skip := ""
	for _, e := range ents {
		if skip != "" && strings.HasPrefix(e.rel, skip+"/") {
			continue
		}
		if err := fn(e.rel, e.de, nil); err != nil {
			if errors.Is(err, fs.SkipDir) {
				if e.de.IsDir() {
					skip = e.rel
					continue
				}
				return nil
			}
			if errors.Is(err, fs.SkipAll) {
				return nil
			}
			return err
		}
	}
	return nil
}

// ---- process, env, identity

func (s *SimOS) Args() []string {
	s.log("Args", false)
	return append([]string(nil), s.ArgsV...)
}

func (s *SimOS) Chdir(dir string) error {
	idx, err := s.log("Chdir", true, dir)
	if err != nil {
		return err
	}
	p := s.abs(dir)
	s.mu.Lock()
	defer s.mu.Unlock()
	n, ok := s.lookup(p)
	if !ok {
		return s.setErrLocked(idx, pathErr("chdir", dir, fs.ErrNotExist))
	}
	if !n.dir {
		return s.setErrLocked(idx, pathErr("chdir", dir, syscall.ENOTDIR))
	}
	s.cwd = p
	return nil
}

func (s *SimOS) Environ() []string {
	s.log("Environ", false)
	s.mu.Lock()
	defer s.mu.Unlock()
	var out []string
	for k, v := range s.env {
		out = append(out, k+"="+v)
	}
	sort.Strings(out)
	return out
}

func (s *SimOS) Exit(code int) {
	s.log("Exit", false, code)
	s.mu.Lock()
	s.Exits = append(s.Exits, code)
	s.mu.Unlock()
}

func (s *SimOS) Getenv(key string) string {
	s.log("Getenv", false, key)
	s.mu.Lock()
	defer s.mu.Unlock()
	return s.env[key]
}

func (s *SimOS) Getpid() int { s.log("Getpid", false); return s.Pid }
func (s *SimOS) Getuid() int { s.log("Getuid", false); return s.Uid }

func (s *SimOS) Getwd() (string, error) {
	if _, err := s.log("Getwd", true); err != nil {
		return "", err
	}
	s.mu.Lock()
	defer s.mu.Unlock()
	if s.RelCwd != "" {
		// a host whose working directory is reported as a relative path
		return s.RelCwd, nil
	}
	return s.cwd, nil
}

func (s *SimOS) Hostname() (string, error) {
	if _, err := s.log("Hostname", true); err != nil {
		return "", err
	}
	return s.Host, nil
}

func (s *SimOS) LookupEnv(key string) (string, bool) {
	s.log("LookupEnv", false, key)
	s.mu.Lock()
	defer s.mu.Unlock()
	v, ok := s.env[key]
	return v, ok
}

func (s *SimOS) MkdirTemp(dir, pattern string) (string, error) {
	if _, err := s.log("MkdirTemp", true, dir, pattern); err != nil {
		return "", err
	}
	s.mu.Lock()
	defer s.mu.Unlock()
	if dir == "" {
		dir = s.Temp
	}
	s.tempCount++
	p := s.abs(dir) + "/" + strings.ReplaceAll(pattern, "*", "") + fmt.Sprintf("simtmp%03d", s.tempCount)
	s.nodes[p] = &node{dir: true, mode: fs.ModeDir | 0o700}
	return p, nil
}

func (s *SimOS) Setenv(key, value string) error {
	if _, err := s.log("Setenv", true, key, value); err != nil {
		return err
	}
	s.mu.Lock()
	defer s.mu.Unlock()
	s.env[key] = value
	return nil
}

func (s *SimOS) TempDir() string { s.log("TempDir", false); return s.Temp }

func (s *SimOS) Unsetenv(key string) error {
	if _, err := s.log("Unsetenv", true, key); err != nil {
		return err
	}
	s.mu.Lock()
	defer s.mu.Unlock()
	delete(s.env, key)
	return nil
}

func (s *SimOS) UserCacheDir() (string, error) {
	if _, err := s.log("UserCacheDir", true); err != nil {
		return "", err
	}
	return "/simroot/cache", nil
}

func (s *SimOS) UserConfigDir() (string, error) {
	if _, err := s.log("UserConfigDir", true); err != nil {
		return "", err
	}
	return "/simroot/config", nil
}

func (s *SimOS) UserHomeDir() (string, error) {
	if _, err := s.log("UserHomeDir", true); err != nil {
		return "", err
	}
	return "/simroot/home/simuser", nil
}

func (s *SimOS) Stdin() ros.File  { s.log("Stdin", false); return s.stdin }
func (s *SimOS) Stdout() ros.File { s.log("Stdout", false); return s.stdout }
func (s *SimOS) Stderr() ros.File { s.log("Stderr", false); return s.stderr }

func (s *SimOS) PathSeparator() rune     { s.log("PathSeparator", false); return '/' }
func (s *SimOS) PathListSeparator() rune { s.log("PathListSeparator", false); return ':' }

type simUser struct{}

func (simUser) Uid() string      { return "31337" }
func (simUser) Gid() string      { return "4242" }
func (simUser) Username() string { return "simuser" }
func (simUser) Name() string     { return "Sim User" }
func (simUser) HomeDir() string  { return "/simroot/home/simuser" }

type simGroup struct{}

func (simGroup) Gid() string  { return "4242" }
func (simGroup) Name() string { return "simgroup" }

func (s *SimOS) CurrentUser() (ros.User, error) {
	if _, err := s.log("CurrentUser", true); err != nil {
		return nil, err
	}
	return simUser{}, nil
}

func (s *SimOS) LookupUser(name string) (ros.User, error) {
	idx, err := s.log("LookupUser", true, name)
	if err != nil {
		return nil, err
	}
	if name != "simuser" {
		return nil, s.setErr(idx, fmt.Errorf("user: unknown user %s", name))
	}
	return simUser{}, nil
}

func (s *SimOS) LookupUid(uid string) (ros.User, error) {
	idx, err := s.log("LookupUid", true, uid)
	if err != nil {
		return nil, err
	}
	if uid != "31337" {
		return nil, s.setErr(idx, fmt.Errorf("user: unknown userid %s", uid))
	}
	return simUser{}, nil
}

func (s *SimOS) LookupGroup(name string) (ros.Group, error) {
	idx, err := s.log("LookupGroup", true, name)
	if err != nil {
		return nil, err
	}
	if name != "simgroup" {
		return nil, s.setErr(idx, fmt.Errorf("group: unknown group %s", name))
	}
	return simGroup{}, nil
}

func (s *SimOS) LookupGid(gid string) (ros.Group, error) {
	idx, err := s.log("LookupGid", true, gid)
	if err != nil {
		return nil, err
	}
	if gid != "4242" {
		return nil, s.setErr(idx, fmt.Errorf("group: unknown groupid %s", gid))
	}
	return simGroup{}, nil
}

// ---- files

type simFile struct {
	os       *SimOS
	path     string
	n        *node
	pos      int64
	writable bool
	append   bool
	closed   bool
	isDir    bool
}

func (f *simFile) Stat() (fs.FileInfo, error) {
	if _, err := f.os.log("File.Stat", true, f.path); err != nil {
		return nil, err
	}
	f.os.mu.Lock()
	defer f.os.mu.Unlock()
	if f.closed {
		return nil, &fs.PathError{Op: "stat", Path: f.path, Err: fs.ErrClosed}
	}
	return f.os.info(f.path, f.n), nil
}

func (f *simFile) Read(p []byte) (int, error) {
	if _, err := f.os.log("File.Read", true, f.path, len(p)); err != nil {
		return 0, err
	}
	f.os.mu.Lock()
	defer f.os.mu.Unlock()
	if f.closed {
		return 0, fs.ErrClosed
	}
	if f.isDir {
		return 0, pathErr("read", f.path, syscall.EISDIR)
	}
	if f.pos >= int64(len(f.n.data)) {
		return 0, io.EOF
	}
	n := copy(p, f.n.data[f.pos:])
	f.pos += int64(n)
	return n, nil
}

func (f *simFile) Write(p []byte) (int, error) {
	if _, err := f.os.log("File.Write", true, f.path, len(p)); err != nil {
		if f.os.ShortWrite && len(p) > 1 {
			// torn write: half of the data lands, then the error
			f.os.mu.Lock()
			f.writeLocked(p[:len(p)/2])
			f.os.mu.Unlock()
			return len(p) / 2, err
		}
		return 0, err
	}
	f.os.mu.Lock()
	defer f.os.mu.Unlock()
	if f.closed {
		return 0, fs.ErrClosed
	}
	if !f.writable {
		return 0, pathErr("write", f.path, syscall.EBADF)
	}
	f.writeLocked(p)
	return len(p), nil
}

func (f *simFile) writeLocked(p []byte) {
	if f.append {
		f.pos = int64(len(f.n.data))
	}
	end := f.pos + int64(len(p))
	if end > int64(len(f.n.data)) {
		nd := make([]byte, end)
		copy(nd, f.n.data)
		f.n.data = nd
	}
	copy(f.n.data[f.pos:], p)
	f.pos = end
}

func (f *simFile) Seek(offset int64, whence int) (int64, error) {
	if _, err := f.os.log("File.Seek", true, f.path, offset, whence); err != nil {
		return 0, err
	}
	f.os.mu.Lock()
	defer f.os.mu.Unlock()
	switch whence {
	case io.SeekStart:
		f.pos = offset
	case io.SeekCurrent:
		f.pos += offset
	case io.SeekEnd:
		f.pos = int64(len(f.n.data)) + offset
	}
	if f.pos < 0 {
		f.pos = 0
		return 0, pathErr("seek", f.path, syscall.EINVAL)
	}
	return f.pos, nil
}

func (f *simFile) Close() error {
	if _, err := f.os.log("File.Close", true, f.path); err != nil {
		f.closed = true
		return err
	}
	f.os.mu.Lock()
	defer f.os.mu.Unlock()
	if f.closed {
		return fs.ErrClosed
	}
	f.closed = true
	return nil
}

// stdFile is one of the three standard streams.
type stdFile struct {
	os   *SimOS
	name string
	data []byte // stdin content
	pos  int
	out  []byte
	// block, when set, makes Read wait once the content is used up, the way a
	// pipe with no writer activity does, until the stream is closed
	block     chan struct{}
	blockOnce sync.Once
}

func (f *stdFile) Stat() (fs.FileInfo, error) {
	if _, err := f.os.log("Std.Stat", true, f.name); err != nil {
		return nil, err
	}
	return ros.NewFileInfo(ros.GenericFileInfoOpts{Name: f.name, Size: int64(len(f.data)), Mode: fs.ModeCharDevice | 0o620, ModTime: epoch}), nil
}

func (f *stdFile) Read(p []byte) (int, error) {
	if _, err := f.os.log("Std.Read", true, f.name, len(p)); err != nil {
		return 0, err
	}
	f.os.mu.Lock()
	defer f.os.mu.Unlock()
	if f.pos >= len(f.data) {
		if f.block != nil {
			blk := f.block
			f.os.mu.Unlock()
			<-blk
			f.os.mu.Lock()
			return 0, fs.ErrClosed
		}
		return 0, io.EOF
	}
	n := copy(p, f.data[f.pos:])
	f.pos += n
	return n, nil
}

func (f *stdFile) Write(p []byte) (int, error) {
	if _, err := f.os.log("Std.Write", true, f.name, len(p)); err != nil {
		return 0, err
	}
	f.os.mu.Lock()
	defer f.os.mu.Unlock()
	f.out = append(f.out, p...)
	return len(p), nil
}

func (f *stdFile) Close() error {
	if f.block != nil {
		f.blockOnce.Do(func() { close(f.block) })
	}
	_, err := f.os.log("Std.Close", true, f.name)
	return err
}
