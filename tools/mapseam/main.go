// Command mapseam generates a build overlay for /repo in which every
// `for k, v := range m` over a Go map (in the non-test sources of the root
// module) iterates over verifhook.MapEntries(m, site) instead. With -tags verif
// the simulator then decides the iteration order of every such loop: Go's
// per-range random start is put behind a seam. /repo itself is not touched.
//
// usage: mapseam -repo /repo -out /verif/.build/overlay
// writes <out>/overlay.json and the rewritten files, and prints one line per
// rewritten site ("site <id> <keytype> controlled|uncontrolled").
package main

import (
	"encoding/json"
	"flag"
	"fmt"
	"go/ast"
	"go/token"
	"go/types"
	"os"
	"path/filepath"
	"sort"
	"strings"

	"golang.org/x/tools/go/packages"
)

type edit struct {
	pos  int // byte offset
	end  int
	text string
}

func main() {
	repo := flag.String("repo", "/repo", "repository root")
	out := flag.String("out", "", "output directory")
	flag.Parse()
	if *out == "" {
		fmt.Println("need -out")
		os.Exit(2)
	}
	cfg := &packages.Config{
		Mode:       packages.NeedName | packages.NeedFiles | packages.NeedSyntax | packages.NeedTypes | packages.NeedTypesInfo | packages.NeedCompiledGoFiles,
		Dir:        *repo,
		BuildFlags: []string{"-tags=verif"},
		Env:        append(os.Environ(), "GOWORK=off", "GOFLAGS=-mod=mod", "GOPROXY=off", "GOSUMDB=off", "GOTOOLCHAIN=local"),
	}
	pkgs, err := packages.Load(cfg, "./...")
	if err != nil {
		fmt.Println("load:", err)
		os.Exit(2)
	}
	bad := 0
	for _, p := range pkgs {
		for _, e := range p.Errors {
			fmt.Println("pkg error:", p.PkgPath, e)
			bad++
		}
	}
	if bad > 0 {
		os.Exit(2)
	}
	os.RemoveAll(*out)
	os.MkdirAll(*out, 0o755)
	replace := map[string]string{}
	nsites := 0
	const hookPath = "github.com/risor-io/risor/internal/verifhook"
	for _, p := range pkgs {
		if p.PkgPath == hookPath {
			continue
		}
		for i, f := range p.Syntax {
			filename := p.CompiledGoFiles[i]
			if strings.HasSuffix(filename, "_test.go") || !strings.HasPrefix(filename, *repo) {
				continue
			}
			src, err := os.ReadFile(filename)
			if err != nil {
				fmt.Println(err)
				os.Exit(2)
			}
			tf := p.Fset.File(f.Pos())
			var edits []edit
			n := 0
			ast.Inspect(f, func(nd ast.Node) bool {
				rs, ok := nd.(*ast.RangeStmt)
				if !ok {
					return true
				}
				tv, ok := p.TypesInfo.Types[rs.X]
				if !ok {
					return true
				}
				// range over reflect.Value.MapKeys(): same nondeterminism
				if call, ok := rs.X.(*ast.CallExpr); ok {
					if sel, ok := call.Fun.(*ast.SelectorExpr); ok && sel.Sel.Name == "MapKeys" && len(call.Args) == 0 {
						if rt, ok := p.TypesInfo.Types[sel.X]; ok && rt.Type.String() == "reflect.Value" {
							rel, _ := filepath.Rel(*repo, filename)
							site := fmt.Sprintf("%s:%d", rel, tf.Line(rs.Pos()))
							xs, xe := tf.Offset(rs.X.Pos()), tf.Offset(rs.X.End())
							edits = append(edits, edit{xs, xe, fmt.Sprintf("verifhook.ReflectKeys(%s, %q)", string(src[xs:xe]), site)})
							nsites++
							fmt.Printf("site %s key=reflect.MapKeys\n", site)
							return true
						}
					}
				}
				mt, ok := tv.Type.Underlying().(*types.Map)
				if !ok {
					return true
				}
				rel, _ := filepath.Rel(*repo, filename)
				line := tf.Line(rs.Pos())
				site := fmt.Sprintf("%s:%d", rel, line)
				n++
				nsites++
				name := fmt.Sprintf("verifKV%d", n)
				isBlank := func(e ast.Expr) bool {
					if e == nil {
						return true
					}
					id, ok := e.(*ast.Ident)
					return ok && id.Name == "_"
				}
				text := func(e ast.Expr) string { return string(src[tf.Offset(e.Pos()):tf.Offset(e.End())]) }
				// header: from after "for " to the body's "{"
				var hdrStart int
				if rs.Key != nil {
					hdrStart = tf.Offset(rs.Key.Pos())
				} else {
					hdrStart = tf.Offset(rs.Range) // "range" keyword position
				}
				hdrEnd := tf.Offset(rs.X.End())
				hdr := fmt.Sprintf("_, %s := range verifhook.MapEntries(%s, %q)", name, text(rs.X), site)
				edits = append(edits, edit{hdrStart, hdrEnd, hdr})
				// body prologue
				var lhs, rhs []string
				if !isBlank(rs.Key) {
					lhs = append(lhs, text(rs.Key))
					rhs = append(rhs, name+".K")
				}
				if !isBlank(rs.Value) {
					lhs = append(lhs, text(rs.Value))
					rhs = append(rhs, name+".V")
				}
				pro := "\n_ = " + name + "\n"
				if len(lhs) > 0 {
					tok := ":="
					if rs.Tok == token.ASSIGN {
						tok = "="
					}
					pro += strings.Join(lhs, ", ") + " " + tok + " " + strings.Join(rhs, ", ") + "\n"
				}
				bodyOpen := tf.Offset(rs.Body.Lbrace) + 1
				edits = append(edits, edit{bodyOpen, bodyOpen, pro})
				fmt.Printf("site %s key=%s\n", site, mt.Key().String())
				return true
			})
			if len(edits) == 0 {
				continue
			}
			// import
			hasImport := false
			for _, im := range f.Imports {
				if strings.Trim(im.Path.Value, `"`) == hookPath {
					hasImport = true
				}
			}
			if !hasImport {
				// insert right after the package clause
				off := tf.Offset(f.Name.End())
				edits = append(edits, edit{off, off, "\n\nimport \"" + hookPath + "\"\n"})
			}
			sort.Slice(edits, func(a, b int) bool { return edits[a].pos > edits[b].pos })
			res := string(src)
			for _, e := range edits {
				res = res[:e.pos] + e.text + res[e.end:]
			}
			rel, _ := filepath.Rel(*repo, filename)
			dst := filepath.Join(*out, rel)
			os.MkdirAll(filepath.Dir(dst), 0o755)
			if err := os.WriteFile(dst, []byte(res), 0o644); err != nil {
				fmt.Println(err)
				os.Exit(2)
			}
			replace[filename] = dst
		}
	}
	b, _ := json.MarshalIndent(map[string]any{"Replace": replace}, "", " ")
	if err := os.WriteFile(filepath.Join(*out, "overlay.json"), b, 0o644); err != nil {
		fmt.Println(err)
		os.Exit(2)
	}
	fmt.Printf("mapseam: %d sites in %d files\n", nsites, len(replace))
}
