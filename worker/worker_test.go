// Package worker is the test binary every check runs in: one OS process
// executes a contiguous range of run indices of one scenario, each run inside
// its own synctest bubble, and writes an aggregate for the driver to merge.
package worker

import (
	"runtime"
	"encoding/json"
	"fmt"
	"os"
	"path/filepath"
	"strconv"
	"strings"
	"testing"
	"time"

	"github.com/risor-io/risor/verif/checks"
	"github.com/risor-io/risor/verif/fw"
	"github.com/risor-io/risor/verif/sim"
)

func envInt(name string, def int64) int64 {
	if v := os.Getenv(name); v != "" {
		n, err := strconv.ParseInt(v, 10, 64)
		if err == nil {
			return n
		}
	}
	return def
}

func envU64(name string, def uint64) uint64 {
	if v := os.Getenv(name); v != "" {
		n, err := strconv.ParseUint(v, 10, 64)
		if err == nil {
			return n
		}
	}
	return def
}

func TestWorker(t *testing.T) {
	check := os.Getenv("VERIF_CHECK")
	if check == "" {
		t.Skip("VERIF_CHECK not set")
	}
	sc := fw.Lookup(check)
	if sc == nil {
		fmt.Printf("INFRA unknown check %q\n", check)
		os.Exit(2)
	}
	tier := os.Getenv("VERIF_TIER")
	if tier == "" {
		tier = "quick"
	}
	if rp := os.Getenv("VERIF_REPLAY"); rp != "" {
		replay(t, sc, rp)
		return
	}
	base := envU64("VERIF_SEED", 1)
	from := int(envInt("VERIF_FROM", 0))
	to := int(envInt("VERIF_TO", 100))
	stride := int(envInt("VERIF_STRIDE", 1))
	deadline := time.Unix(envInt("VERIF_DEADLINE", time.Now().Add(time.Hour).Unix()), 0)
	out := os.Getenv("VERIF_OUT")
	replayDir := os.Getenv("VERIF_REPLAY_DIR")
	maxViol := int(envInt("VERIF_MAX_VIOLATIONS", 3))
	maxSamples := int(envInt("VERIF_SAMPLES", 2))
	verbose := os.Getenv("VERIF_VERBOSE") != ""
	runLimit := time.Duration(envInt("VERIF_RUN_LIMIT_S", 90)) * time.Second

	agg := fw.NewAgg(sc.Property)
	agg.FirstIndex = from
	start := time.Now()
	seenClass := map[string]bool{}
	// signatures of listed known findings: recorded, not minimised, and not
	// counted towards the stop-after-N-violations limit
	known := strings.Split(os.Getenv("VERIF_KNOWN"), "\x1f")
	nKnown := 0
	for i := from; i < to; i += stride {
		if time.Now().After(deadline) {
			agg.StoppedEarly = true
			break
		}
		seed := fw.RunSeed(base, i)
		// The driver attributes a dead worker to the last "begin" line.
		fmt.Printf("begin index=%d seed=%d\n", i, seed)
		// Watchdog on the real clock (armed outside the bubble): a run that does
		// not come back - e.g. a task stuck on a sync.Mutex, which is not a
		// durable block, so the simulator cannot even reach quiescence - ends
		// the process; the driver then repeats the run alone to confirm.
		wd := time.AfterFunc(runLimit, func() {
			fmt.Printf("WATCHDOG: run index=%d seed=%d did not return within %v (hang)\n", i, seed, runLimit)
			// where everybody is (for the log the driver keeps)
			buf := make([]byte, 1<<20)
			n := runtime.Stack(buf, true)
			if n > 60000 {
				n = 60000
			}
			fmt.Printf("%s\n", buf[:n])
			os.Exit(3)
		})
		tape := sim.NewTape(seed)
		rc := fw.Execute(t, sc, tier, seed, i, tape, false)
		wd.Stop()
		agg.Add(rc, maxSamples)
		agg.LastIndex = i
		if rc.FullTrace != "" {
			fmt.Printf("trace index=%d %s\n", i, rc.FullTrace)
		}
		if verbose {
			fmt.Printf("run index=%d steps=%d strategy=%s digest=%x violation=%v\n", i, rc.Steps, rc.Strategy, rc.Digest, rc.Violation)
		}
		if rc.Violation != nil {
			if seenClass[rc.Violation.Class] {
				agg.Counters["violations_repeat_class"]++
				continue
			}
			seenClass[rc.Violation.Class] = true
			isKnown := false
			for _, k := range known {
				if k != "" && strings.HasPrefix(rc.Violation.Class, k) {
					isKnown = true
				}
			}
			fv := handleViolation(t, sc, tier, base, i, seed, tape, rc, replayDir, !isKnown)
			agg.Violations = append(agg.Violations, fv)
			if isKnown {
				nKnown++
			}
			if len(agg.Violations)-nKnown >= maxViol {
				agg.StoppedEarly = true
				break
			}
		}
	}
	agg.WallS = time.Since(start).Seconds()
	if out != "" {
		if err := agg.Write(out); err != nil {
			fmt.Printf("INFRA cannot write %s: %v\n", out, err)
			os.Exit(2)
		}
	}
	fmt.Printf("worker done runs=%d violations=%d\n", agg.Runs, len(agg.Violations))
}

func handleViolation(t *testing.T, sc *fw.Scenario, tier string, base uint64, index int, seed uint64, tape *sim.Tape, rc *fw.RunCtx, dir string, minimise bool) fw.FoundViolation {
	orig := tape.Recorded()
	class := rc.Violation.Class
	try := func(c map[string][]int) string {
		r := fw.Execute(t, sc, tier, seed, index, sim.ReplayTape(seed, c), true)
		if r.Violation == nil {
			return ""
		}
		return r.Violation.Class
	}
	rf := &fw.ReplayFile{
		Property: sc.Property, Scenario: sc.Name, Tier: tier, BaseSeed: base, Index: index, RunSeed: seed,
		Violation: *rc.Violation, Digest: rc.Digest, Streams: orig, Rendering: rc.Sample, DrawsTotal: fw.TotalDraws(orig),
		RaceBuild: checks.IsRaceBuild(),
	}
	// The recorded tape must reproduce before minimising is meaningful.
	if !minimise {
		// known finding: keep the recorded tape as it is
	} else if try(orig) == class {
		maxAttempts := int(envInt("VERIF_MIN_ATTEMPTS", 400))
		best, attempts := fw.Minimise(orig, class, try, maxAttempts, 20*time.Second)
		r := fw.Execute(t, sc, tier, seed, index, sim.ReplayTape(seed, best), true)
		if r.Violation != nil && r.Violation.Class == class {
			rf.Streams = best
			rf.Original = orig
			rf.Violation = *r.Violation
			rf.Digest = r.Digest
			rf.Rendering = r.Sample
			rf.Minimised = true
			rf.Attempts = attempts
			rf.DrawsTotal = fw.TotalDraws(best)
		}
	} else {
		rf.Rendering = map[string]any{"note": "recorded tape did not reproduce the class on immediate re-execution", "first": rc.Sample}
	}
	path := ""
	if dir != "" {
		os.MkdirAll(dir, 0o755)
		path = filepath.Join(dir, fmt.Sprintf("%s-%d-%d.json", sc.Property, base, index))
		if err := fw.WriteReplay(path, rf); err != nil {
			fmt.Printf("INFRA cannot write replay %s: %v\n", path, err)
			os.Exit(2)
		}
	}
	fmt.Printf("found violation property=%s class=%q index=%d seed=%d replay=%s\n", sc.Property, class, index, seed, path)
	return fw.FoundViolation{Violation: rf.Violation, Seed: seed, Index: index, Replay: path}
}

func replay(t *testing.T, sc *fw.Scenario, path string) {
	rf, err := fw.ReadReplay(path)
	if err != nil {
		fmt.Printf("INFRA cannot read replay: %v\n", err)
		os.Exit(2)
	}
	n := int(envInt("VERIF_REPLAY_TIMES", 1))
	same := 0
	for i := 0; i < n; i++ {
		limit := time.Duration(envInt("VERIF_RUN_LIMIT_S", 90)) * time.Second
		wd := time.AfterFunc(limit, func() {
			fmt.Printf("WATCHDOG: replayed run did not return within %v (hang)\n", limit)
			os.Exit(3)
		})
		defer wd.Stop()
		tape := sim.ReplayTape(rf.RunSeed, rf.Streams)
		if rf.Regenerate {
			tape = sim.NewTape(rf.RunSeed)
			fmt.Printf("begin index=%d seed=%d\n", rf.Index, rf.RunSeed)
		}
		rc := fw.Execute(t, sc, rf.Tier, rf.RunSeed, rf.Index, tape, !rf.Regenerate)
		if rc.Violation != nil && rc.Violation.Class == rf.Violation.Class {
			same++
			fmt.Printf("replay %d: same class %q digest_match=%v\n  %s\n", i, rc.Violation.Class, rc.Digest == rf.Digest, rc.Violation.Message)
		} else if rc.Violation != nil {
			fmt.Printf("replay %d: different class %q (%s)\n", i, rc.Violation.Class, rc.Violation.Message)
		} else {
			fmt.Printf("replay %d: no violation\n", i)
		}
	}
	fmt.Printf("REPLAY-RESULT property=%s class=%q reproduced=%d/%d\n", sc.Property, rf.Violation.Class, same, n)
}

// TestDescribe prints the scenario's metadata for the driver's evidence file.
func TestDescribe(t *testing.T) {
	check := os.Getenv("VERIF_CHECK")
	if check == "" {
		t.Skip("VERIF_CHECK not set")
	}
	sc := fw.Lookup(check)
	if sc == nil {
		fmt.Printf("INFRA unknown check %q\n", check)
		os.Exit(2)
	}
	total := 0
	if sc.Total != nil {
		total = sc.Total(os.Getenv("VERIF_TIER"))
	}
	b, _ := json.Marshal(map[string]any{
		"total":    total,
		"property": sc.Property, "name": sc.Name, "level": sc.Level, "rule": sc.Rule,
		"real": sc.Real, "stub": sc.Stub, "assumptions": sc.Assumptions,
	})
	fmt.Printf("META %s\n", b)
}
